// C13 — row and alias shorthands mean exactly their hand-written expansion (DESIGN §5.1, §6-C13).
//
// `ref_expand` is a small reference expander written for this purpose: it turns the JSON of a
// shorthand layout into the *plain* mappings a person would write by hand, grouped by source
// mapping.  It has its own US-QWERTY table and row tables (typed in, not taken from
// char_production_map.rs / physical_keyboard_layouts.rs).  The oracle is differential:
// real(P) against real(hand-written expansion of P), both through the real loader.
use crate::common::*;
use crate::corpus::load_layout_value;
use crate::keys::{Layout, Mapping};
use serde_json::{json, Value};
use std::collections::BTreeMap;

fn us_char(c: char) -> Option<(bool, &'static str)> {
  let unshifted = "`1234567890-=qwertyuiop[]\\asdfghjkl;'zxcvbnm,./";
  let shifted = "~!@#$%^&*()_+QWERTYUIOP{}|ASDFGHJKL:\"ZXCVBNM<>?";
  let names = ["GRAVE", "1", "2", "3", "4", "5", "6", "7", "8", "9", "0", "MINUS", "EQUAL", "Q", "W", "E", "R", "T", "Y", "U", "I", "O", "P", "LEFTBRACE", "RIGHTBRACE", "BACKSLASH",
    "A", "S", "D", "F", "G", "H", "J", "K", "L", "SEMICOLON", "APOSTROPHE", "Z", "X", "C", "V", "B", "N", "M", "COMMA", "DOT", "SLASH"];
  if let Some(i) = unshifted.chars().position(|x| x == c) { return Some((false, names[i])); }
  if let Some(i) = shifted.chars().position(|x| x == c) { return Some((true, names[i])); }
  None
}

fn row_keys(name: &str) -> Option<Vec<&'static str>> {
  let g = vec!["GRAVE", "1", "2", "3", "4", "5", "6", "7", "8", "9", "0", "MINUS", "EQUAL"];
  match name.to_uppercase().as_str() {
    "`" => Some(g),
    "1" => Some(g[1..].to_vec()),
    "Q" => Some(vec!["Q", "W", "E", "R", "T", "Y", "U", "I", "O", "P", "LEFTBRACE", "RIGHTBRACE"]),
    "A" => Some(vec!["A", "S", "D", "F", "G", "H", "J", "K", "L", "SEMICOLON", "APOSTROPHE"]),
    "Z" => Some(vec!["Z", "X", "C", "V", "B", "N", "M", "COMMA", "DOT", "SLASH"]),
    _ => None,
  }
}

fn as_list(v: &Value) -> Vec<Value> { match v { Value::Array(a) => a.clone(), x => vec![x.clone()] } }
fn is_alias(v: &Value) -> bool { v.as_str().map(|s| s.starts_with('@')).unwrap_or(false) }
const STDMODS: [&str; 8] = ["LEFTSHIFT", "RIGHTSHIFT", "LEFTALT", "RIGHTALT", "LEFTCTRL", "RIGHTCTRL", "LEFTMETA", "RIGHTMETA"];

/// (groups of plain mappings per source mapping in source order, identity mappings added by repeat-only entries)
pub fn ref_expand(layout: &Value) -> Option<(Vec<Vec<Value>>, Vec<Value>)> {
  let ms = layout.get("mappings")?.as_array()?;
  let mut defs: Vec<(String, Vec<String>)> = vec![];
  for m in ms {
    if let Some(to) = m.get("to") {
      let tl = as_list(to);
      if let Some(last) = tl.last() { if is_alias(last) {
        let keys: Vec<String> = as_list(m.get("from")?).iter().map(|k| k.as_str().map(|s| s.to_string())).collect::<Option<Vec<_>>>()?;
        defs.push((last.as_str()?.to_string(), keys));
      } }
    }
  }
  let defs_of = |name: &str| -> Vec<Vec<String>> { defs.iter().filter(|d| d.0 == name).map(|d| d.1.clone()).collect() };
  // one combination = for every modifier position the keys chosen for it; the first alias varies fastest
  let combos = |mods: &Vec<Value>| -> Option<Vec<Vec<Vec<String>>>> {
    let mut alts: Vec<Vec<Vec<String>>> = vec![];
    for m in mods { let s = m.as_str()?; alts.push(if s.starts_with('@') { defs_of(s) } else { vec![vec![s.to_string()]] }); }
    let mut res: Vec<Vec<Vec<String>>> = vec![vec![]];
    for a in alts.iter().rev() {
      let mut nr = vec![];
      for choice in a { for r in &res { let mut x = vec![choice.clone()]; x.extend(r.clone()); nr.push(x); } }
      res = nr;
    }
    Some(res)
  };
  // output-side aliases are replaced by the keys chosen on the trigger side
  let translate = |mods: &Vec<Value>, combo: &Vec<Vec<String>>, side: &[Value]| -> Option<Vec<String>> {
    let mut out = vec![];
    for x in side {
      let s = x.as_str()?;
      if s.starts_with('@') { let pos = mods.iter().rposition(|m| m.as_str() == Some(s))?; out.extend(combo[pos].clone()); } else { out.push(s.to_string()); }
    }
    Some(out)
  };
  let mut groups: Vec<Vec<Value>> = vec![];
  let mut repeat_only: Vec<Value> = vec![];
  for m in ms {
    let mut g: Vec<Value> = vec![];
    let from = as_list(m.get("from")?);
    let (mods, fin) = (from[..from.len() - 1].to_vec(), from.last()?.clone());
    let absorbing: Vec<Value> = m.get("absorbing").map(as_list).unwrap_or_default();
    match m.get("to") {
      None => { repeat_only.push(m.clone()); groups.push(g); continue; }
      Some(to) => {
        let tl = as_list(to);
        if tl.last().map(is_alias).unwrap_or(false) {
          // alias definition: a lone standard modifier keeps passing through, anything else is swallowed / remapped
          let keys: Vec<String> = from.iter().map(|k| k.as_str().map(|s| s.to_string())).collect::<Option<Vec<_>>>()?;
          if !(keys.len() == 1 && STDMODS.contains(&keys[0].as_str())) { g.push(json!({"from": keys, "to": tl[..tl.len() - 1].to_vec()})); }
        } else if fin.is_object() {
          let row = row_keys(fin.get("row")?.as_str()?)?;
          let letters: Vec<char> = tl.last()?.get("letters")?.as_str()?.chars().collect();
          let tomods = tl[..tl.len() - 1].to_vec();
          for combo in combos(&mods)? {
            let fm: Vec<String> = combo.iter().flatten().cloned().collect();
            let sh = if fm.iter().any(|k| k == "RIGHTSHIFT") { "RIGHTSHIFT" } else { "LEFTSHIFT" };
            for (i, ch) in letters.iter().enumerate() {
              if *ch == ' ' { continue; }
              let (needs, key) = us_char(*ch)?;
              let mut f = fm.clone(); f.push(row.get(i)?.to_string());
              let mut t = translate(&mods, &combo, &tomods)?; if needs { t.push(sh.into()); } t.push(key.into());
              let mut o = json!({"from": f, "to": t});
              match m.get("repeat") {
                Some(Value::String(s)) => { o["repeat"] = json!(s); }
                Some(r) => {
                  let sp = r.get("Special")?; let kl = as_list(sp.get("keys")?);
                  let rl: Vec<char> = kl.last()?.get("letters")?.as_str()?.chars().collect();
                  if i < rl.len() && rl[i] != ' ' {
                    let (n2, k2) = us_char(rl[i])?;
                    let mut rk = translate(&mods, &combo, &kl[..kl.len() - 1])?; if n2 { rk.push(sh.into()); } rk.push(k2.into());
                    o["repeat"] = json!({"Special": {"keys": rk, "delay_ms": sp["delay_ms"], "interval_ms": sp["interval_ms"]}});
                  }
                }
                None => {}
              }
              if !absorbing.is_empty() { o["absorbing"] = json!(translate(&mods, &combo, &absorbing)?); }
              g.push(o);
            }
          }
        } else {
          for combo in combos(&mods)? {
            let mut f: Vec<String> = combo.iter().flatten().cloned().collect(); f.push(fin.as_str()?.to_string());
            let t = translate(&mods, &combo, &tl)?;
            let mut o = json!({"from": f, "to": t});
            match m.get("repeat") {
              Some(Value::String(s)) => { o["repeat"] = json!(s); }
              Some(r) => { let sp = r.get("Special")?; let kl = as_list(sp.get("keys")?); o["repeat"] = json!({"Special": {"keys": translate(&mods, &combo, &kl)?, "delay_ms": sp["delay_ms"], "interval_ms": sp["interval_ms"]}}); }
              None => {}
            }
            if !absorbing.is_empty() { o["absorbing"] = json!(translate(&mods, &combo, &absorbing)?); }
            g.push(o);
          }
        }
      }
    }
    groups.push(g);
  }
  // repeat-only entries: set the repeat mode of the mappings with the same trigger set, or add an identity mapping
  let mut identities = vec![];
  let mut ambiguous = false;
  let trig_set = |f: &Vec<String>| -> (Vec<String>, String) { let mut m = f[..f.len() - 1].to_vec(); m.sort(); (m, f.last().unwrap().clone()) };
  for m in repeat_only {
    let from = as_list(m.get("from")?);
    let (mods, fin) = (from[..from.len() - 1].to_vec(), from.last()?.clone());
    for combo in combos(&mods)? {
      let mut f: Vec<String> = combo.iter().flatten().cloned().collect(); f.push(fin.as_str()?.to_string());
      let rep = match m.get("repeat")? { Value::String(s) => json!(s), r => { let sp = r.get("Special")?; let kl = as_list(sp.get("keys")?); json!({"Special": {"keys": translate(&mods, &combo, &kl)?, "delay_ms": sp["delay_ms"], "interval_ms": sp["interval_ms"]}}) } };
      let ts = trig_set(&f);
      let mut found = false;
      for g in groups.iter_mut() { for o in g.iter_mut() {
        let of: Vec<String> = o["from"].as_array().unwrap().iter().map(|k| k.as_str().unwrap().to_string()).collect();
        if trig_set(&of) == ts { o["repeat"] = rep.clone(); found = true; }
      } }
      if !found {
        // two repeat-only entries for a trigger nothing else maps: whether the second one re-uses the first one's identity
        // mapping or adds another is not fixed by the statement (the behaviour is the same either way) - not compared
        let dup = identities.iter().any(|o: &Value| { let of: Vec<String> = o["from"].as_array().unwrap().iter().map(|k| k.as_str().unwrap().to_string()).collect(); trig_set(&of) == ts });
        if dup { ambiguous = true; }
        identities.push(json!({"from": f, "to": f, "repeat": rep}));
      }
    }
  }
  if ambiguous { return Some((vec![], vec![json!("ambiguous")])); }
  Some((groups, identities))
}

fn real_load(v: &Value) -> Result<Vec<Mapping>, String> { load_layout_value(v).map(|l| l.mappings) }

/// Ok(Some(n)) compared n mappings; Ok(None) rejected by the loader (not compared); Err((clause, detail))
fn compare(p: &Value) -> Result<Option<usize>, (&'static str, String)> {
  let real = match real_load(p) { Ok(r) => r, Err(_) => return Ok(None) };
  let (groups, ids) = match ref_expand(p) { Some(x) => x, None => return Err(("reference-cannot-expand-accepted-program", "the loader accepts a program the reference expander has no expansion for".to_string())) };
  if ids.first().and_then(|v| v.as_str()) == Some("ambiguous") { return Ok(None); }
  let key = |m: &Mapping| format!("{:?}", m);
  let mut pos = 0usize;
  for (gi, g) in groups.iter().enumerate() {
    let exp = real_load(&json!({ "mappings": g })).map_err(|e| ("hand-written-expansion-rejected", format!("source mapping {}: the loader rejects the hand-written expansion {} ({})", gi, json!(g), e)))?;
    if pos + exp.len() > real.len() { return Err(("too-few-mappings", format!("converted layout has {} mappings, the expansion needs more: real={:?} expected groups={}", real.len(), real, json!(groups)))); }
    let mut a: Vec<String> = real[pos..pos + exp.len()].iter().map(key).collect();
    let mut b: Vec<String> = exp.iter().map(key).collect();
    a.sort(); b.sort();
    if a != b { return Err(("expansion-differs", format!("source mapping {} expands to {:?}, hand-written expansion gives {:?}", gi, &real[pos..pos + exp.len()], exp))); }
    pos += exp.len();
  }
  let expi = real_load(&json!({ "mappings": ids })).map_err(|e| ("hand-written-expansion-rejected", format!("identity mappings {} rejected ({})", json!(ids), e)))?;
  let mut a: Vec<String> = real[pos..].iter().map(key).collect();
  let mut b: Vec<String> = expi.iter().map(key).collect();
  a.sort(); b.sort();
  if a != b { return Err(("repeat-only-handling-differs", format!("after the source mappings the converted layout has {:?}, expected the identity mappings {:?}", &real[pos..], expi))); }
  Ok(Some(real.len()))
}

/// equivalent spellings of the same program: bare string <-> one-element array, row and repeat names in the other case
fn respell(p: &Value, variant: u8) -> Value {
  fn flip(v: &Value) -> Value { match v { Value::Array(a) if a.len() == 1 => a[0].clone(), Value::Array(_) => v.clone(), x => json!([x]) } }
  let mut q = p.clone();
  if let Some(ms) = q.get_mut("mappings").and_then(|m| m.as_array_mut()) {
    for m in ms.iter_mut() {
      let obj = match m.as_object_mut() { Some(o) => o, None => continue };
      if variant == 0 {
        for f in ["from", "to", "absorbing"] { if let Some(v) = obj.get(f) { let nv = flip(v); if !(f == "to" && nv.is_array() && nv.as_array().unwrap().is_empty()) { obj.insert(f.to_string(), nv); } } }
        if let Some(k) = obj.get_mut("repeat").and_then(|r| r.get_mut("Special")).and_then(|s| s.get_mut("keys")) { let nv = flip(k); *k = nv; }
      } else {
        let swap_case = |s: &str| -> String { if s.chars().any(|c| c.is_lowercase()) { s.to_uppercase() } else { s.to_lowercase() } };
        if let Some(Value::String(s)) = obj.get("repeat").cloned() { obj.insert("repeat".into(), json!(swap_case(&s))); }
        if let Some(from) = obj.get_mut("from") {
          let fix = |x: &mut Value| { if let Some(r) = x.get("row").and_then(|r| r.as_str()).map(|s| s.to_string()) { x["row"] = json!(swap_case(&r)); } };
          match from { Value::Array(a) => { for x in a.iter_mut() { fix(x); } } x => fix(x) }
        }
      }
    }
  }
  q
}

fn alias_setups() -> Vec<Vec<Value>> {
  vec![
    vec![],
    vec![json!({"from": "LEFTSHIFT", "to": "@a"})],
    vec![json!({"from": "LEFTSHIFT", "to": "@a"}), json!({"from": "RIGHTSHIFT", "to": "@a"})],
    vec![json!({"from": "CAPSLOCK", "to": "@a"}), json!({"from": ["RIGHTALT", "TAB"], "to": ["LEFTCTRL", "@a"]})],
    vec![json!({"from": "LEFTSHIFT", "to": "@a"}), json!({"from": "RIGHTSHIFT", "to": "@a"}), json!({"from": "CAPSLOCK", "to": "@b"}), json!({"from": "RIGHTALT", "to": ["F13", "@b"]})],
    vec![json!({"from": ["LEFTCTRL", "LEFTALT"], "to": "@a"}), json!({"from": "RIGHTCTRL", "to": ["@a"]}), json!({"from": "F14", "to": ["LEFTMETA", "F15", "@b"]})],
    // three aliases with 2 / 1 / 2 and 3 / 2 / 2 definitions: every combination must appear, first alias varying fastest
    vec![json!({"from": "LEFTSHIFT", "to": "@a"}), json!({"from": "RIGHTSHIFT", "to": "@a"}), json!({"from": "CAPSLOCK", "to": "@b"}), json!({"from": "LEFTALT", "to": "@c"}), json!({"from": "RIGHTALT", "to": "@c"})],
    vec![json!({"from": "LEFTSHIFT", "to": "@a"}), json!({"from": "RIGHTSHIFT", "to": "@a"}), json!({"from": "F17", "to": "@a"}), json!({"from": "CAPSLOCK", "to": "@b"}), json!({"from": "TAB", "to": "@b"}), json!({"from": "LEFTALT", "to": "@c"}), json!({"from": "RIGHTALT", "to": "@c"})],
  ]
}

pub fn programs(thorough: bool) -> Vec<Value> {
  let mut ps: Vec<Value> = vec![];
  let defs = alias_setups();
  // the built-in layouts and README examples are programs too
  let mut names: Vec<&String> = crate::default_fancy_layouts::DEFAULT_LAYOUTS.keys().collect(); names.sort();
  for n in names { if let Ok(v) = serde_json::from_str::<Value>(crate::default_fancy_layouts::DEFAULT_LAYOUTS[n]) { ps.push(v); } }
  // (1) the character dimension: every row spelling x every position x every printable ASCII character (+ some that must be rejected)
  let rows = ["`", "1", "Q", "A", "Z", "q", "a", "z"];
  let chars: Vec<char> = (32u8..127).map(|b| b as char).chain("é€\u{7f}\t".chars()).collect();
  for row in rows { for pos in 0..14usize { for ch in &chars {
    for (di, d) in defs.iter().enumerate().take(if thorough { defs.len() } else { 5 }) {
      let letters: String = std::iter::repeat(' ').take(pos).chain(std::iter::once(*ch)).collect();
      let from = match di { 0 => json!({ "row": row }), 1 | 2 | 3 => json!(["@a", { "row": row }]), _ => json!(["@a", "@b", { "row": row }]) };
      let mut ms = d.clone(); ms.push(json!({"from": from, "to": {"letters": letters}}));
      ps.push(json!({ "mappings": ms }));
    }
  } } }
  // (1b) full-length letters: all printable characters in sliding windows of every row's length (positions and characters jointly)
  let printable: Vec<char> = (33u8..127).map(|b| b as char).collect();
  for (row, len) in [("`", 13usize), ("1", 12), ("Q", 12), ("A", 11), ("Z", 10)] {
    for start in 0..printable.len() {
      let letters: String = (0..len).map(|i| printable[(start + i * 7) % printable.len()]).collect();
      for (di, d) in defs.iter().enumerate().take(3) {
        let from = if di == 0 { json!({ "row": row }) } else { json!(["@a", { "row": row }]) };
        let mut ms = d.clone(); ms.push(json!({"from": from, "to": {"letters": letters}, "repeat": {"Special": {"keys": {"letters": letters.chars().rev().collect::<String>()}, "delay_ms": 3, "interval_ms": 4}}}));
        ps.push(json!({ "mappings": ms }));
      }
    }
  }
  // (2) single mappings: modifiers x outputs x repeat forms x absorbing forms, with neighbours
  let modsets: Vec<Value> = vec![json!([]), json!(["@a"]), json!(["CAPSLOCK"]), json!(["@a", "CAPSLOCK"]), json!(["@a", "@b"]), json!(["@b", "TAB", "@a"]), json!(["TAB", "@a", "F16"]), json!(["@a", "@b", "@c"]), json!(["@c", "@a", "F16", "@b"]),
    // a plain key BEFORE the aliases (position in the trigger != ordinal among the aliases), two and three aliases after it
    json!(["TAB", "@a", "@b"]), json!(["F16", "@b", "@a"]), json!(["TAB", "@a", "F16", "@b"]), json!(["TAB", "F16", "@c", "@b", "@a"])];
  let tos: Vec<Value> = vec![json!([]), json!("X"), json!(["X"]), json!(["@a", "X"]), json!(["LEFTCTRL", "@a", "X"]), json!(["@b", "@a", "X"]), json!(["@c", "@a", "X"])];
  let repeats: Vec<Option<Value>> = vec![None, Some(json!("Disabled")), Some(json!("disabled")), Some(json!("Normal")), Some(json!({"Special": {"keys": "F21", "delay_ms": 180, "interval_ms": 30}})), Some(json!({"Special": {"keys": ["@a", "F21"], "delay_ms": 1, "interval_ms": 2}})), Some(json!({"Special": {"keys": [], "delay_ms": 1, "interval_ms": 2}}))];
  let absorbs: Vec<Option<Value>> = vec![None, Some(json!("@a")), Some(json!(["@a"])), Some(json!(["CAPSLOCK"])), Some(json!([]))];
  for d in &defs { for ms_ in &modsets { for to in &tos { for rp in &repeats { for ab in &absorbs {
    let mut from = ms_.as_array().unwrap().clone(); from.push(json!("A"));
    let mut m = json!({"from": from, "to": to});
    if let Some(r) = rp { m["repeat"] = r.clone(); }
    if let Some(a) = ab { m["absorbing"] = a.clone(); }
    for extra in 0..4 {
      let mut ms = d.clone(); ms.push(m.clone());
      match extra {
        1 => ms.push(json!({"from": "B", "to": "C"})),
        2 => ms.push(json!({"from": from, "repeat": "Disabled"})),
        3 => { ms.insert(d.len(), json!({"from": "Q", "repeat": {"Special": {"keys": "F20", "delay_ms": 5, "interval_ms": 6}}})); ms.push(json!({"from": ["CAPSLOCK", "@a", "A"], "repeat": "Disabled"})); }
        _ => {}
      }
      ps.push(json!({ "mappings": ms }));
    }
  } } } } }
  // (3) whole-row programs with output modifiers, row repeats and absorbing
  let row_tos: Vec<Value> = vec![json!({"letters": "aoeu"}), json!(["RIGHTALT", {"letters": ":<"}]), json!(["@a", {"letters": " X y"}]), json!({"letters": "AbCdEfGhIj"})];
  let row_reps: Vec<Option<Value>> = vec![None, Some(json!("Disabled")), Some(json!({"Special": {"keys": ["LEFTSHIFT", {"letters": "AO"}], "delay_ms": 10, "interval_ms": 20}})), Some(json!({"Special": {"keys": ["@a", {"letters": "A:"}], "delay_ms": 10, "interval_ms": 20}})), Some(json!({"Special": {"keys": {"letters": "xy"}, "delay_ms": 10, "interval_ms": 20}})), Some(json!({"Special": {"keys": ["@a", {"letters": " Z"}], "delay_ms": 10, "interval_ms": 20}})), Some(json!({"Special": {"keys": ["LEFTCTRL", {"letters": "q"}], "delay_ms": 10, "interval_ms": 20}}))];
  for d in &defs { for ms_ in modsets.iter() { for to in &row_tos { for rp in &row_reps { for ab in absorbs.iter().take(4) { for row in ["Q", "z", "1"] {
    let mut from = ms_.as_array().unwrap().clone(); from.push(json!({ "row": row }));
    let mut m = json!({"from": from, "to": to});
    if let Some(r) = rp { m["repeat"] = r.clone(); }
    if let Some(a) = ab { m["absorbing"] = a.clone(); }
    let mut ms = d.clone(); ms.push(m);
    ps.push(json!({ "mappings": ms }));
  } } } } } }
  // (4) order between source mappings and the repeat-only pass: every ordered tuple of 1..=k sources from a menu
  let menu: Vec<Value> = vec![
    json!({"from": ["@a", "J"], "to": "LEFT"}),
    json!({"from": "J", "to": ["LEFTCTRL", "K"]}),
    json!({"from": ["CAPSLOCK", "J"], "to": ["@a", "K"]}),
    json!({"from": ["@a", {"row": "A"}], "to": {"letters": "   f  j"}}),
    json!({"from": {"row": "A"}, "to": ["LEFTALT", {"letters": "      J"}], "repeat": "Disabled"}),
    json!({"from": "J", "repeat": {"Special": {"keys": "F21", "delay_ms": 180, "interval_ms": 30}}}),
    json!({"from": ["@a", "J"], "repeat": "Disabled"}),
    json!({"from": ["J", "@a"], "repeat": {"Special": {"keys": ["@a", "F22"], "delay_ms": 7, "interval_ms": 8}}}),
    json!({"from": ["LEFTSHIFT", "J"], "to": [], "absorbing": "LEFTSHIFT"}),
    json!({"from": "K", "repeat": "Normal"}),
    json!({"from": ["@a", "@b", "@c", "J"], "to": ["@c", "@a", "UP"]}),
    json!({"from": ["@c", "@b", "@a", "J"], "repeat": "Disabled"}),
  ];
  let kmax = if thorough { 4 } else { 2 };
  for (di5, d) in defs.iter().skip(1).take(if thorough { 7 } else { 3 }).enumerate() {
    let n = menu.len();
    for len in 1..=kmax + (if thorough && di5 < 2 { 1 } else { 0 }) { for idx in 0..n.pow(len as u32) {
      let mut j = idx; let mut ms = d.clone();
      for _ in 0..len { ms.push(menu[j % n].clone()); j /= n; }
      ps.push(json!({ "mappings": ms }));
    } }
  }
  ps
}

pub fn converted_outputs_for_c15(thorough: bool) -> Vec<Layout> {
  let mut out = vec![];
  let stride = if thorough { 3 } else { 23 };
  for (i, p) in programs(false).iter().enumerate() { if i % stride == 0 || i % 101 < 3 { if let Ok(l) = load_layout_value(p) { if !l.mappings.is_empty() { out.push(l); } } } }
  out
}

#[derive(Default)]
struct Acc { n: u64, compared: u64, rejected: u64, mappings: u64, variants: u64, fails: BTreeMap<&'static str, (u64, usize, String)> }

pub fn run(ctx: &Ctx) -> Outcome {
  let thorough = ctx.tier == Tier::Thorough;
  let ps = programs(thorough);
  let acc = par_fold(ps.len(), ctx.threads, Acc::default, |i, acc: &mut Acc| {
    let p = &ps[i];
    acc.n += 1;
    let r = std::panic::catch_unwind(std::panic::AssertUnwindSafe(|| compare(p)));
    let mut reports: Vec<(&'static str, String)> = vec![];
    let mut rep = |c: &'static str, d: String| reports.push((c, d));
    match r {
      Err(_) => {
        rep("loader-panicked", "the loader panicked on this program (C14's subject; listed here because the program could not be compared)".to_string());
        // ... and C13's too when the hand-written expansion of the same program loads: the shorthand then does not "convert to
        // the same basic mappings as the layout with every shorthand written out by hand" - it does not convert at all
        let expansion_loads = std::panic::catch_unwind(std::panic::AssertUnwindSafe(|| match ref_expand(p) {
          Some((groups, ids)) if ids.first().and_then(|v| v.as_str()) != Some("ambiguous") => groups.iter().all(|g| real_load(&json!({ "mappings": g })).is_ok()) && real_load(&json!({ "mappings": ids })).is_ok(),
          _ => false })).unwrap_or(false);
        if expansion_loads { rep("shorthand-panics-where-its-expansion-loads", format!("the loader panics on the shorthand program {} although its hand-written expansion loads", p)); }
      }
      Ok(Ok(None)) => acc.rejected += 1,
      Ok(Ok(Some(n))) => {
        acc.compared += 1; acc.mappings += n as u64;
        // equivalent spellings convert identically
        let base = real_load(p).ok();
        for variant in 0..2u8 {
          let q = respell(p, variant);
          if q == *p { continue; }
          acc.variants += 1;
          let rq = std::panic::catch_unwind(std::panic::AssertUnwindSafe(|| real_load(&q))).unwrap_or(Err("panic".into())).ok();
          if rq != base { rep("equivalent-spelling-converts-differently", format!("program {} and its respelling {} convert to {:?} and {:?}", p, q, base, rq)); }
        }
      }
      Ok(Err((c, d))) => rep(c, d),
    }
    for (c, d) in reports { let e = acc.fails.entry(c).or_insert((0, i, d)); e.0 += 1; }
  }, |a, b| { a.n += b.n; a.compared += b.compared; a.rejected += b.rejected; a.mappings += b.mappings; a.variants += b.variants;
    for (k, v) in b.fails { match a.fails.get_mut(k) { None => { a.fails.insert(k, v); } Some(e) => { let c = e.0 + v.0; if v.1 < e.1 { *e = v; } e.0 = c; } } } });
  let mut o = Outcome::new("exploration");
  o.cov("evaluations", acc.n);
  o.cov("distinct_nontrivial", acc.compared);
  o.cov("programs_rejected_by_loader_not_compared", acc.rejected);
  o.cov("basic_mappings_compared", acc.mappings);
  o.cov("respelled_variants_compared", acc.variants);
  o.cov("exhaustive", true);
  o.cov("rule", "programs enumerated from a grammar: 8 alias set-ups (one or several keys, several definitions per alias, extra output keys) x (1) every row spelling x every position 0..13 x every printable ASCII character (plus non-ASCII/control characters that must be rejected), (2) single mappings over 13 modifier lists (aliases first, between and after plain keys) x 7 output forms x 7 repeat forms x 5 absorbing forms x 4 neighbour contexts incl. repeat-only entries, (3) whole-row mappings with output modifiers, row repeats and absorbing, (4) every ordered tuple of source mappings from a 12-entry menu (order and repeat-only pass; tuples of 1..2 quick, 1..4 thorough and 1..5 under the first two alias set-ups), plus the built-in layouts. Oracle: real(P) vs real(hand-written expansion by the reference expander), groups in source order, multiset within a group; respelled variants must convert identically. distinct_nontrivial = programs (distinct by construction) the loader accepted and that reached the comparison.".to_string());
  let si = ps.len() / 3;
  o.cov("samples", json!([{"program": ps[si], "reference_expansion": ref_expand(&ps[si]).map(|(g, i)| json!({"groups": g, "identities": i}))}]));
  o.assumptions = vec!["the reference expander's US-QWERTY and row tables were typed in independently".into(), "within one source mapping's expansion only the multiset is compared (the statement fixes order only between different source mappings)".into(), "programs using the same alias twice in one trigger are compared only if the loader accepts them; the last occurrence decides output-side substitution".into()];
  for (c, (n, i, d)) in &acc.fails {
    let prop = if *c == "loader-panicked" { "C14" } else { "C13" };
    o.violations.push(Violation { property: prop.into(), clause: c.to_string(), signature: None, description: d.clone(), artefact: json!({"engine": "C13", "program": ps[*i]}), count: *n });
  }
  if acc.compared == 0 { o.machinery_error = Some("no program reached the comparison".into()); }
  o
}

pub fn replay_artefact(v: &Value) -> i32 {
  let p = &v["program"];
  println!("program {}", p);
  match real_load(p) { Ok(ms) => { println!("converted:"); for m in ms { println!("  {:?}", m); } } Err(e) => println!("loader rejects: {}", e) }
  match ref_expand(p) { Some((g, i)) => println!("reference expansion: groups {} identities {}", json!(g), json!(i)), None => println!("reference expander: no expansion") }
  println!("comparison: {:?}", compare(p));
  0
}
