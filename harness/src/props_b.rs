// Families, bounds and evidence for Engine B (C10, C11, C12, C20).  DESIGN §4, §6, §11.
use crate::common::*;
use crate::corpus::{layout_json, load_layout_text};
use crate::engine_b::*;
use crate::keys::{KeyCode, Layout, Mapping, Repeat};
use serde_json::{json, Value};
use std::collections::BTreeMap;

fn m(from: &[KeyCode], to: &[KeyCode], repeat: Repeat) -> Mapping { Mapping { from: from.to_vec(), to: to.to_vec(), repeat, absorbing: vec![] } }

fn l_plain() -> Layout { use KeyCode::*; Layout { mappings: vec![m(&[A], &[B], Repeat::Normal)] } }
fn l_norepeat() -> Layout { use KeyCode::*; Layout { mappings: vec![m(&[A], &[A], Repeat::Disabled), m(&[B], &[B], Repeat::Normal)] } }
fn l_repeat() -> Layout {
  use KeyCode::*;
  Layout { mappings: vec![m(&[A], &[A], Repeat::Disabled), m(&[B], &[B], Repeat::Special { keys: vec![LEFTCTRL, C], delay_ms: 130, interval_ms: 30 })] }
}
fn l_out_key() -> Layout { use KeyCode::*; Layout { mappings: vec![m(&[B], &[D], Repeat::Special { keys: vec![E], delay_ms: 130, interval_ms: 30 }), m(&[A], &[C], Repeat::Normal)] } }
fn l_edge() -> Layout { use KeyCode::*; Layout { mappings: vec![m(&[B], &[B], Repeat::Special { keys: vec![C], delay_ms: 0, interval_ms: 1 }), m(&[A], &[A], Repeat::Special { keys: vec![LEFTSHIFT, C], delay_ms: 1, interval_ms: 2147483 })] } }
// outputs with key codes at and above 562 (the virtual keyboard registers key bits 1..562 only), alone and mixed with ordinary keys
fn l_highcodes() -> Layout { use KeyCode::*; Layout { mappings: vec![m(&[A], &[LEFTSHIFT, RIGHT_UP], Repeat::Normal), m(&[A, B], &[KBDINPUTASSIST_PREV], Repeat::Normal), m(&[C], &[RIGHT_DOWN], Repeat::Disabled)] } }
fn l_edge_neg() -> Layout { use KeyCode::*; Layout { mappings: vec![m(&[B], &[B], Repeat::Special { keys: vec![C], delay_ms: -1, interval_ms: 30 }), m(&[A], &[A], Repeat::Special { keys: vec![C], delay_ms: i32::MAX, interval_ms: i32::MIN })] } }
// a chord of three keys, two of them adjacent modifiers the user can hold
fn l_adjacent() -> Layout { use KeyCode::*; Layout { mappings: vec![m(&[B], &[B], Repeat::Special { keys: vec![LEFTCTRL, LEFTSHIFT, C], delay_ms: 130, interval_ms: 30 }), m(&[J], &[J], Repeat::Special { keys: vec![C, LEFTSHIFT, LEFTCTRL, LEFTALT], delay_ms: 50, interval_ms: 20 })] } }
fn l_chord() -> Layout { use KeyCode::*; Layout { mappings: vec![m(&[CAPSLOCK], &[], Repeat::Normal), m(&[CAPSLOCK, J], &[LEFT], Repeat::Normal)] } }
fn l_two_repeats() -> Layout {
  use KeyCode::*;
  Layout { mappings: vec![
    m(&[B], &[B], Repeat::Special { keys: vec![LEFTCTRL, C], delay_ms: 130, interval_ms: 30 }),
    m(&[J], &[LEFT], Repeat::Special { keys: vec![C, LEFTCTRL, B], delay_ms: 50, interval_ms: 20 }),
    m(&[K], &[K], Repeat::Special { keys: vec![], delay_ms: 40, interval_ms: 10 }),
  ] }
}
fn l_super_dvorak() -> Layout { load_layout_text(crate::default_fancy_layouts::DEFAULT_LAYOUTS["super-dvorak"]).expect("super-dvorak") }

fn cfg(alphabet: &[KeyCode], max_events: usize, max_tablet: usize, devs: usize, ticks: usize, interval_ms: u64) -> EnvCfg {
  EnvCfg { alphabet: alphabet.to_vec(), max_events, max_tablet, devs, ticks, tablet_end: false, late_us: vec![1000, interval_ms * 1000 - 1000], exact_deadline_arrival: true, max_calls: 400, script: vec![], burst_sizes: vec![], max_bursts: 0, single_event_wakeups: false, verbose: false, empty_wakeups: true }
}


/// ten distinct keys pressed in one notification, then tablet events: reports of eight and more events
fn big_report_cfg(max_tablet: usize) -> EnvCfg {
  use KeyCode::*;
  let keys = [A, S, D, F, G, H, J, K, L, SEMICOLON, Q, W];
  let mut c = cfg(&[A], 0, max_tablet, 0, 0, 30);
  c.script = keys.iter().map(|k| crate::keys::Event::Pressed(*k)).collect();
  c.burst_sizes = vec![7, 8, 9, 12];
  c.max_bursts = 1; c.max_calls = 300;
  c
}

fn families(id: &str, tier: Tier) -> Vec<BFamily<'static>> {
  use KeyCode::*;
  let q = tier == Tier::Quick;
  let mut f: Vec<BFamily<'static>> = vec![];
  let mut add = |name: &'static str, layout: Layout, cfg: EnvCfg| f.push(BFamily { name, layout, cfg });
  match id {
    "C10" => {
      // no Special mappings: every batching of every history, deviations 0..=bound; tablet events interleaved in two families
      let (l, d) = if q { (5, 1) } else { (6, 2) };
      add("plain A->B over {A,C}", l_plain(), cfg(&[A, C], l, 0, d, 0, 30));
      add("chord CAPSLOCK->[], CAPSLOCK+J->LEFT over {CAPSLOCK,J}", l_chord(), cfg(&[CAPSLOCK, J], l, 0, d, 0, 30));
      add("no-repeat A->A Disabled, B->B over {A,B,LEFTSHIFT}", l_norepeat(), cfg(&[A, B, LEFTSHIFT], if q { 5 } else { 6 }, 0, if q { 1 } else { 1 }, 0, 30));
      if !q { add("plain A->B over {A,C}, longer histories", l_plain(), cfg(&[A, C], 8, 0, 1, 0, 30)); }
      add("high key codes: A->[LEFTSHIFT,RIGHT_UP], [A,B]->[KBDINPUTASSIST_PREV], C->[RIGHT_DOWN] over {A,B,C}", l_highcodes(), cfg(&[A, B, C], if q { 4 } else { 5 }, 0, if q { 0 } else { 1 }, 0, 30));
      { let mut cl = cfg(&[A, B, LEFTSHIFT], if q { 6 } else { 7 }, 0, 0, 0, 30); cl.single_event_wakeups = true;
        add("no-repeat layout over {A,B,LEFTSHIFT}: histories up to 6 (7) events, one per wake-up", l_norepeat(), cl); }
      add("large reports: 7..12 distinct keys pressed in one notification, then up to 2 tablet events (pass-through layout)", Layout { mappings: vec![] }, big_report_cfg(2));
      // a repeat timer is live while batches arrive: wake-ups just before, at, and (deviation) after the deadline
      add("repeat layout over {A,B}: batches arriving around a live timer's deadline, late wake-ups", l_repeat(), cfg(&[A, B], if q { 3 } else { 4 }, 0, 1, 1, 30));
      // long bursts: a fixed alternating script delivered in one or two notifications of every size from a menu around
      // powers of two (a loop that reads at most k events per wake-up, k <= 257, is caught whatever k is)
      {
        let mut c = cfg(&[A], 0, 0, 0, 0, 30);
        c.script = (0..600).map(|i| if i % 2 == 0 { crate::keys::Event::Pressed(A) } else { crate::keys::Event::Released(A) }).collect();
        c.burst_sizes = vec![1, 2, 3, 7, 8, 9, 15, 16, 17, 23, 24, 25, 31, 32, 33, 63, 64, 65, 127, 128, 129, 255, 256, 257];
        c.max_bursts = 2; c.max_calls = 3000;
        add("bursts: alternating A press/release, one or two notifications of 1..257 events each", l_plain(), c);
      }
      // the quantifier also interleaves tablet-switch events and puts end-of-device anywhere, on either device
      let mut ct = cfg(&[A], if q { 4 } else { 5 }, 2, if q { 1 } else { 2 }, 0, 30); ct.tablet_end = true;
      add("plain A->B over {A} interleaved with up to 2 tablet events, either device may go away", l_plain(), ct);
      add("chord layout over {CAPSLOCK,J} interleaved with a tablet event", l_chord(), cfg(&[CAPSLOCK, J], if q { 4 } else { 5 }, 1, if q { 0 } else { 1 }, 0, 30));
      // two deviations in a row (two interruptions, interruption + empty wake-up, ...) over short histories, with end-of-device anywhere
      { let mut c2 = cfg(&[A], 3, if q { 0 } else { 1 }, 2, 0, 30); c2.tablet_end = !q;
        add("plain A->B over {A}: histories up to 3 events, deviation bound 2", l_plain(), c2); }
      // the loop's other input: the verbose flag (diagnostics must not change what is written)
      { let mut cv = cfg(&[A, B, LEFTSHIFT], if q { 4 } else { 5 }, 1, 1, 0, 30); cv.verbose = true; cv.tablet_end = true;
        add("verbose loop: no-repeat layout over {A,B,LEFTSHIFT} with a tablet event, either device may go away", l_norepeat(), cv); }
    }
    "C11" => {
      let (l, t, d) = if q { (4, 3, 1) } else { (5, 3, 1) };
      // the three largest thorough families keep the deviation menu they were sized with (no empty wake-ups); the quick-sized family with them follows
      let noempty = |mut c: EnvCfg| { c.empty_wakeups = false; c };
      if q { add("repeat B->B Special{[LEFTCTRL,C],130,30}, A->A Disabled over {A,B,LEFTCTRL}", l_repeat(), cfg(&[A, B, LEFTCTRL], l, 0, d, t, 30)); }
      else {
        add("repeat B->B Special{[LEFTCTRL,C],130,30}, A->A Disabled over {A,B,LEFTCTRL} (deviations without empty wake-ups)", l_repeat(), noempty(cfg(&[A, B, LEFTCTRL], l, 0, d, t, 30)));
        add("same layout, histories up to 4, all deviation kinds", l_repeat(), cfg(&[A, B, LEFTCTRL], 4, 0, 1, 3, 30));
        add("same layout, deviation bound 2 (without empty wake-ups)", l_repeat(), noempty(cfg(&[A, B, LEFTCTRL], 4, 0, 2, 3, 30))); add("same layout over {B,LEFTCTRL}, up to 6 time-outs (without empty wake-ups)", l_repeat(), noempty(cfg(&[B, LEFTCTRL], 4, 0, 1, 6, 30)));
      }
      add("same layout with up to two tablet events", l_repeat(), cfg(&[B, LEFTCTRL], l, 2, if q { 0 } else { 1 }, if q { 2 } else { 3 }, 30));
      add("B->D Special{[E],130,30} over {B,D}: the output key of the repeating mapping is pressed physically", l_out_key(), cfg(&[B, D], l, 0, if q { 0 } else { 1 }, t, 30));
      { let mut cl = cfg(&[A, B, LEFTCTRL], if q { 5 } else { 6 }, 0, 0, 3, 30); cl.single_event_wakeups = true;
        add("repeat layout over {A,B,LEFTCTRL}: histories up to 5 (6) events, one per wake-up, up to 3 time-outs", l_repeat(), cl); }
      add("numeric edge: B->B Special{[C],0,1} (zero delay, 1 ms interval) over {B,A}", l_edge(), cfg(&[B, A], if q { 3 } else { 4 }, 0, if q { 1 } else { 1 }, if q { 4 } else { 6 }, 1));
      add("numeric edge: negative and extreme delay / interval values over {A,B}", l_edge_neg(), cfg(&[A, B], if q { 3 } else { 4 }, 0, if q { 0 } else { 1 }, 2, 30));
      add("chords [LEFTCTRL,LEFTSHIFT,C] and [C,LEFTSHIFT,LEFTCTRL,LEFTALT] over {B,J,LEFTCTRL,LEFTSHIFT}: several adjacent chord keys held at the tick", l_adjacent(), { let mut c = cfg(&[B, J, LEFTCTRL, LEFTSHIFT], if q { 4 } else { 5 }, 0, 0, 2, 30); c.single_event_wakeups = true; c });
      add("three Special mappings (chords [LEFTCTRL,C], [C,LEFTCTRL,B], []) over {B,J,K}", l_two_repeats(), cfg(&[B, J, K], if q { 4 } else { 5 }, 0, if q { 0 } else { 1 }, if q { 3 } else { 3 }, 10));
      if !q { add("super-dvorak repeat keys over {K,J,LEFTCTRL}", l_super_dvorak(), cfg(&[K, J, LEFTCTRL], 4, 0, 1, 4, 30)); }
      { let mut cv = cfg(&[B, LEFTCTRL], if q { 3 } else { 4 }, 1, 1, 3, 30); cv.verbose = true;
        add("verbose loop: repeat layout over {B,LEFTCTRL} with a tablet event and time-outs", l_repeat(), cv); }
    }
    "C12" => {
      let (l, d) = if q { (4, 1) } else { (5, 2) };
      let mut c1 = cfg(&[A], l, 3, d, 0, 30); c1.tablet_end = !q;
      add("plain A->B over {A} with up to 3 tablet events", l_plain(), c1);
      add("chord layout over {CAPSLOCK,J} with up to 2 tablet events", l_chord(), cfg(&[CAPSLOCK, J], l, 2, if q { 1 } else { 1 }, 0, 30));
      add("repeat layout over {B,LEFTCTRL} with up to 2 tablet events and time-outs", l_repeat(), cfg(&[B, LEFTCTRL], l, 2, if q { 1 } else { 1 }, 2, 30));
      if !q { add("plain A->B over {A}, longer histories with up to 3 tablet events", l_plain(), cfg(&[A], 7, 3, 1, 0, 30)); }
      add("large reports: 7..12 distinct keys pressed in one notification, then up to 3 tablet events (pass-through layout)", Layout { mappings: vec![] }, big_report_cfg(3));
      // long histories, one event per wake-up: what survives in the mapper across On/Off (no-repeat and Special mappings, a foreign key)
      let mut cl = cfg(&[A, C], if q { 7 } else { 8 }, 2, 0, 0, 30); cl.single_event_wakeups = true;
      add("no-repeat A->A Disabled, B->B over {A,C}: histories up to 7 (8) events, one per wake-up, up to 2 tablet events", l_norepeat(), cl);
      let mut cl2 = cfg(&[B, C], if q { 6 } else { 7 }, 2, 0, 1, 30); cl2.single_event_wakeups = true;
      add("repeat layout over {B,C}: histories up to 6 (7) events, one per wake-up, up to 2 tablet events, one time-out", l_repeat(), cl2);
      { let mut cv = cfg(&[A, C], if q { 4 } else { 5 }, 3, 1, 0, 30); cv.verbose = true; cv.tablet_end = true;
        add("verbose loop: plain A->B over {A,C} with up to 3 tablet events, either device may go away", l_plain(), cv);
        let mut cv2 = cfg(&[B, LEFTCTRL], if q { 4 } else { 5 }, 2, 0, 2, 30); cv2.verbose = true; cv2.single_event_wakeups = true;
        add("verbose loop: repeat layout over {B,LEFTCTRL}, one event per wake-up, up to 2 tablet events and time-outs", l_repeat(), cv2); }
    }
    "C20" => {
      let (l, d) = if q { (4, 1) } else { (5, 1) };
      add("plain A->B over {A} with a tablet event", l_plain(), cfg(&[A], l, 1, d, 0, 30));
      add("chord layout over {CAPSLOCK,J}", l_chord(), cfg(&[CAPSLOCK, J], l, 1, d, 0, 30));
      add("repeat layout over {B,LEFTCTRL} with time-outs and a tablet event", l_repeat(), cfg(&[B, LEFTCTRL], l, 1, d, 2, 30));
      if !q { add("plain A->B over {A,C}, deviation bound 2", l_plain(), cfg(&[A, C], 3, 1, 2, 0, 30)); }
      { let mut cl = cfg(&[A, C], if q { 5 } else { 6 }, 2, 0, 0, 30); cl.single_event_wakeups = true;
        add("no-repeat layout over {A,C}: histories up to 5 (6) events, one per wake-up, up to 2 tablet events", l_norepeat(), cl); }
      add("high key codes: A->[LEFTSHIFT,RIGHT_UP], [A,B]->[KBDINPUTASSIST_PREV], C->[RIGHT_DOWN] over {A,B,C}", l_highcodes(), cfg(&[A, B, C], if q { 3 } else { 4 }, 1, 0, 0, 30));
      { let mut cl = cfg(&[B, LEFTCTRL], if q { 4 } else { 5 }, 1, 0, 3, 30); cl.single_event_wakeups = true;
        add("repeat layout over {B,LEFTCTRL}: histories up to 4 (5) events, one per wake-up, up to 3 time-outs", l_repeat(), cl); }
      add("large reports: 7..12 distinct keys pressed in one notification, then up to 2 tablet events (pass-through layout)", Layout { mappings: vec![] }, big_report_cfg(2));
      { let mut cv = cfg(&[B, LEFTCTRL], if q { 3 } else { 4 }, 1, 1, 2, 30); cv.verbose = true; cv.tablet_end = true;
        add("verbose loop: repeat layout over {B,LEFTCTRL} with a tablet event, time-outs, either device may go away", l_repeat(), cv); }
    }
    _ => unreachable!(),
  }
  f
}

/// The loop half of a mapper property whose statement reaches into the per-device loop: C06 ("after ... the release-all
/// operation used on tablet-mode changes ... answers exactly as a newly created mapper ... no memory of ... repeat triggers
/// survives" - anchored in remapping_loop.rs too) and C19 ("every mapper step and every release-all batch", judged on what
/// is written to the device).  Runs the tablet-mode families of C12 that have chords, timers and long single-event
/// histories, and keeps the discrepancies the judge attributes to `own` (DESIGN 4.2: a discrepancy can belong to several
/// statements).
pub fn loop_half(ctx: &Ctx, own: &str) -> (Vec<Violation>, Value, Option<String>) {
  let fams: Vec<BFamily<'static>> = if matches!(own, "C06" | "C19") {
    families("C12", ctx.tier).into_iter().filter(|f| f.name.starts_with("chord layout") || f.name.starts_with("repeat layout over {B,LEFTCTRL} with up to 2") || f.name.contains("one per wake-up, up to 2 tablet events") && !f.name.starts_with("verbose")).collect()
  } else {
    // C01, C02, C05: the plain, chord, no-repeat and high-code families of C10 and its bursts (no tablet events)
    let mut v: Vec<BFamily<'static>> = families("C10", ctx.tier).into_iter().filter(|f| f.cfg.max_tablet == 0 && !f.cfg.verbose && f.cfg.ticks == 0).collect();
    // one notification of L events whose LAST event is the press of an uninvolved key (F1), for L around every power of two:
    // whatever a loop does to the tail of a large notification, it shows on a key that no mapping mentions
    for l in [2usize, 3, 4, 5, 8, 9, 15, 16, 17, 31, 32, 33, 63, 64, 65, 127, 128, 129, 255, 256, 257] {
      let mut c = cfg(&[KeyCode::A], 0, 0, 0, 0, 30);
      c.script = (0..l - 1).map(|i| if i % 2 == 0 { crate::keys::Event::Pressed(KeyCode::A) } else { crate::keys::Event::Released(KeyCode::A) }).chain(std::iter::once(crate::keys::Event::Pressed(KeyCode::F1))).collect();
      c.burst_sizes = vec![l]; c.max_bursts = 1; c.max_calls = 3000;
      v.push(BFamily { name: Box::leak(format!("one notification of {} events ending with the press of the uninvolved key F1", l).into_boxed_str()), layout: l_plain(), cfg: c });
    }
    v
  };
  let cap = ctx.tier.pick(40_000_000u64, 2_000_000_000u64);
  let mut total = BAgg::default(); let mut per_family: Vec<Value> = vec![]; let mut viols: Vec<Violation> = vec![];
  for fam in &fams {
    let mut a = explore_family(ctx, fam, own, false, cap);
    per_family.push(json!({"family": fam.name, "executions": a.executions, "driver_calls": a.driver_calls, "distinct_write_logs": a.distinct_send_logs.len()}));
    for ((prop, clause), (count, choices, detail, fail_at)) in std::mem::take(&mut a.viols) {
      if viols.iter().any(|v| v.clause == clause) { continue; }
      let x1 = run_once(&fam.layout, &fam.cfg, &choices, fail_at);
      let art = json!({"engine": "B", "family": fam.name, "layout": layout_json(&fam.layout), "env": env_json(&fam.cfg), "choices": choices, "fail_at": fail_at, "log": log_json(&x1.log), "result": format!("{:?}", x1.result), "first_classified_to": prop});
      viols.push(Violation { property: own.to_string(), clause: format!("device-level: {}", clause), signature: None, description: detail, artefact: art, count });
    }
    total.merge(a);
  }
  let cov = json!({"what": format!("the real per-device loop under the scripted driver (Engine B), tablet-mode families of C12 with chords, timers and long single-event histories; kept: discrepancies the judge attributes to {}", own), "families": per_family, "executions": total.executions, "driver_calls": total.driver_calls, "reset_batches_written": total.counters.get("reset_batches_written").cloned().unwrap_or(0)});
  let mach = total.machinery.clone().or(if total.executions == 0 { Some("loop half ran no execution".to_string()) } else { None });
  (viols, cov, mach)
}

pub fn run(ctx: &Ctx) -> Outcome {
  let id = ctx.id.as_str();
  let fams = families(id, ctx.tier);
  let inject = id == "C20";
  let mut total = BAgg::default();
  let mut per_family: Vec<Value> = vec![];
  let cap = ctx.tier.pick(40_000_000u64, 2_000_000_000u64);
  let mut witness_family: BTreeMap<(String, String), usize> = BTreeMap::new();
  for (fi, fam) in fams.iter().enumerate() {
    let t = std::time::Instant::now();
    let a = explore_family(ctx, fam, id, inject, cap);
    per_family.push(json!({"family": fam.name, "layout": layout_json(&fam.layout)["mappings"], "key_alphabet": fam.cfg.alphabet.iter().map(|k| format!("{}", k)).collect::<Vec<_>>(),
      "max_events": fam.cfg.max_events, "max_tablet_events": fam.cfg.max_tablet, "deviation_bound": fam.cfg.devs, "timeout_budget": fam.cfg.ticks,
      "executions": a.executions, "driver_calls": a.driver_calls, "injected_runs": a.injected_runs, "distinct_write_logs": a.distinct_send_logs.len(), "max_choice_points": a.max_choices, "wall_s": t.elapsed().as_secs_f64()}));
    for k in a.viols.keys() { witness_family.entry(k.clone()).or_insert(fi); }
    total.merge(a);
  }
  // C10: the loop is transparent for EVERY shape of step output, not only for those of the few layouts above.  The families
  // above treat the mapper as a black box of which only "events or none" and the repeat instruction matter to the loop; a loop
  // that looks into the event lists (filters, merges, reorders them) breaks that assumption.  So the layouts of the mapper
  // corpus whose steps have the richest shapes (shared and repeated output keys, lifted modifiers, hand-overs, no-repeat
  // releases, four mappings in effect) are each driven through the real loop with every history of up to 3 events, one event
  // per wake-up, and the same oracle (writes = a fresh real mapper's non-empty outputs, in order).
  let mut sweep_layouts = 0u64;
  let mut sweep_viols: Vec<Violation> = vec![];
  if id == "C10" {
    use crate::props_a::{Job, Need};
    let mut jobs: Vec<Job> = vec![];
    jobs.extend(crate::props_a::shared_output_jobs(Need::Any));
    jobs.extend(crate::props_a::handback_jobs(Need::Any));
    jobs.extend(crate::props_a::two_modifier_jobs(Need::Any));
    jobs.extend(crate::props_a::q4_jobs(Need::Any, false).into_iter().enumerate().filter(|(i, _)| ctx.tier == Tier::Thorough || i % 7 == 0).map(|(_, j)| j));
    jobs.extend(crate::props_a::same_final_jobs(Need::Any, 4));
    let items: Vec<(Layout, Vec<KeyCode>)> = jobs.into_iter().filter_map(|j| match j { Job::Fixed { layout, alphabet, .. } => Some((layout, alphabet)), _ => None }).collect();
    sweep_layouts = items.len() as u64;
    let one = Ctx { id: ctx.id.clone(), tier: ctx.tier, seed: ctx.seed, start: ctx.start, threads: 1 };
    let depth = if ctx.tier == Tier::Quick { 3 } else { 4 };
    let t = std::time::Instant::now();
    let aggs: Vec<BAgg> = par_map(items.len(), ctx.threads, |i| {
      let mut c = cfg(&items[i].1, depth, 0, 0, 0, 30); c.single_event_wakeups = true; c.empty_wakeups = false;
      explore_family(&one, &BFamily { name: "mapper-corpus sweep", layout: items[i].0.clone(), cfg: c }, id, false, cap)
    });
    let mut sweep = BAgg::default();
    for (i, mut a) in aggs.into_iter().enumerate() {
      // a discrepancy found in the sweep keeps its own layout: reported here, not through the family table below
      for ((prop, clause), (count, choices, detail, fail_at)) in std::mem::take(&mut a.viols) {
        if let Some(v) = sweep_viols.iter_mut().find(|v: &&mut Violation| v.property == prop && v.clause == clause) { v.count += count; continue; }
        let mut c = cfg(&items[i].1, depth, 0, 0, 0, 30); c.single_event_wakeups = true; c.empty_wakeups = false;
        let x1 = run_once(&items[i].0, &c, &choices, fail_at);
        let art = json!({"engine": "B", "family": "mapper-corpus sweep", "layout": layout_json(&items[i].0), "env": env_json(&c), "choices": choices, "fail_at": fail_at, "log": log_json(&x1.log), "result": format!("{:?}", x1.result)});
        sweep_viols.push(Violation { property: prop, clause, signature: None, description: detail, artefact: art, count });
      }
      sweep.merge(a);
    }
    per_family.push(json!({"family": "mapper-corpus sweep: every layout of the families O3, NR4, M2, S4 and every 7th (thorough: every) layout of Q4, every history of up to 3 (4) events over the layout's own alphabet, one event per wake-up", "layouts": sweep_layouts,
      "executions": sweep.executions, "driver_calls": sweep.driver_calls, "distinct_write_logs": sweep.distinct_send_logs.len(), "wall_s": t.elapsed().as_secs_f64()}));
    total.merge(sweep);
  }
  let level = if inject { "fault_enumeration" } else { "model_checking" };
  let mut o = Outcome::new(level);
  o.cov("executions", total.executions);
  o.cov("states", total.distinct_logs.len() as u64);
  if total.distinct_logs_capped { o.cov("states_note", "distinct driver-call logs are counted exactly up to 4M per worker thread; the number reported is a lower bound, `executions` is exact"); }
  o.cov("transitions", total.driver_calls);
  o.cov("traces_validated_against_impl", total.rerun_identical);
  o.cov("distinct_write_logs", total.distinct_send_logs.len() as u64);
  if inject {
    o.cov("evaluations", total.injected_runs);
    o.cov("distinct_nontrivial", total.distinct_fault_logs.len() as u64);
  } else {
    o.cov("evaluations", total.executions);
    o.cov("distinct_nontrivial", total.distinct_send_logs.len() as u64);
  }
  o.cov("families", json!(per_family));
  o.cov("counters", json!(total.counters));
  o.cov("discrepancies_classified_to_other_properties", json!(total.foreign));
  o.cov("samples", json!(total.samples));
  o.cov("exhaustive", total.machinery.is_none());
  o.cov("rule", match id {
    "C20" => "for every complete execution of the real loop under every environment choice sequence within the budgets, and every k in 1..#driver-calls: re-run with the k-th driver call failing; distinct_nontrivial = distinct call logs of injected runs in which the loop had already read an event or written something".to_string(),
    _ => format!("stateless DFS with prefix replay over all environment choice sequences (arrival batches over every key event of the alphabet, device order, arrival delay, time-outs on time/late, spurious time-outs, interruptions, late arrivals, end-of-device at every point) within the budgets per family; every execution runs the real loop to its return; states = distinct driver-call logs, transitions = driver calls answered, distinct_nontrivial = distinct sequences of writes to the virtual keyboard; oracle = first discrepancy from the reference classified to {}", id),
  });
  o.assumptions = vec![
    "environment model: edge-triggered readiness per device, reads never block, poll is faithful to its timeout (a time-out is reported at or after the deadline, lateness below one interval)".into(),
    "thread::sleep of the interruption back-off is recorded, not turned into virtual time".into(),
    "the mapper is a black box for the loop: the reference feeds a separate fresh real Mapper with the events in the order the loop read them".into(),
  ];
  for ((prop, clause), (count, choices, detail, fail_at)) in &total.viols {
    let fi = witness_family[&(prop.clone(), clause.clone())];
    let fam = &fams[fi];
    // replay twice, identical observations required
    let x1 = run_once(&fam.layout, &fam.cfg, choices, *fail_at);
    let x2 = run_once(&fam.layout, &fam.cfg, choices, *fail_at);
    if x1.log != x2.log { o.machinery_error = Some("replay of a counter-example schedule is not deterministic".into()); }
    let art = json!({"engine": "B", "family": fam.name, "layout": layout_json(&fam.layout), "env": env_json(&fam.cfg), "choices": choices, "fail_at": fail_at, "log": log_json(&x1.log), "result": format!("{:?}", x1.result)});
    let sig = chord_signature(prop, clause, detail);
    o.violations.push(Violation { property: prop.clone(), clause: clause.clone(), signature: sig, description: detail.clone(), artefact: art, count: *count });
  }
  for v in sweep_viols { if !o.violations.iter().any(|w| w.property == v.property && w.clause == v.clause) { o.violations.push(v); } }
  if let Some(e) = &total.machinery { o.machinery_error = Some(e.clone()); }
  // Engine R: the same property below the Driver seam - the real driver, readers, writer and poll registry on real descriptors
  if matches!(id, "C10" | "C12" | "C20") {
    let t = std::time::Instant::now();
    let r = crate::engine_r::run_family(ctx, id);
    o.cov("real_descriptor_tier", json!({"what": "the unmodified RealDriver + loop (hook run_real_driver_on_fds) over socket pairs (keyboard, tablet switch) and a pipe (virtual keyboard); a scenario = a list of write() calls of whole input_event records, stepped: after each write the feeder waits until the loop thread is blocked in epoll_wait with both inputs drained (read from /proc/self/task/<tid>), then collects what was written; at most one fault (virtual keyboard full = EAGAIN from then on, virtual keyboard closed = EPIPE, a device failing with ECONNRESET); every scenario ends with the keyboard failing; oracle = the mapper's outputs per step / the loop returns the error at the step where the fault bites and writes nothing afterwards",
      "scenarios": r.runs, "writes_to_devices": r.steps, "distinct_observations": r.distinct_outputs.len(), "scenarios_in_which_the_fault_ended_the_loop_early": r.faults_bitten, "note": r.note, "wall_s": t.elapsed().as_secs_f64()}));
    for ((prop, clause), (count, detail, art)) in &r.viols {
      o.violations.push(Violation { property: prop.clone(), clause: clause.clone(), signature: None, description: detail.clone(), artefact: art.clone(), count: *count });
    }
    if let Some(e) = &r.machinery { o.machinery_error = Some(e.clone()); }
    if r.note.is_none() && r.runs == 0 { o.machinery_error = Some("real-descriptor tier ran no scenario".into()); }
  }
  // C11 below the Driver seam: an interrupted wait while a repeat is pending (Engine R, real clock, one-sided bound)
  if id == "C11" {
    use crate::engine_r::{interrupt_probe, InterruptObs, HOOK_BUILT};
    let mut notes: Vec<Value> = vec![];
    if !HOOK_BUILT { notes.push(json!("unavailable: the hook run_real_driver_on_fds did not compile on this tree")); }
    else {
      let params: Vec<(i32, u64, usize)> = if ctx.tier == Tier::Quick { vec![(1500, 400, 1), (1200, 250, 2)] } else { vec![(1500, 400, 1), (1200, 250, 2), (3000, 700, 3), (800, 300, 1)] };
      let obs: Vec<InterruptObs> = par_map(params.len(), params.len(), |i| interrupt_probe(params[i].0, params[i].1, params[i].2));
      for (pr, ob) in params.iter().zip(obs.into_iter()) {
        match ob {
          InterruptObs::Unavailable(m) => notes.push(json!({"delay_ms": pr.0, "unavailable": m})),
          InterruptObs::Machinery(m) => { o.machinery_error = Some(format!("interrupt probe: {}", m)); }
          InterruptObs::Rearmed { first_ms, after_ms, pause_ms } => {
            notes.push(json!({"delay_ms": pr.0, "first_timeout_ms": first_ms, "paused_ms": pause_ms, "timeout_after_signals_ms": after_ms}));
            if after_ms > first_ms - pause_ms as i64 + 2 {
              o.violations.push(Violation { property: "C11".into(), clause: "real-driver-waits-too-long-after-an-interrupted-wait".into(), signature: None,
                description: format!("Special repeat with delay {} ms under the real driver: the wait was armed with {} ms; {} ms later a signal interrupted it (EINTR) and the loop went back to waiting with {} ms - beyond the chord's due time (at most {} ms are left)", pr.0, first_ms, pause_ms, after_ms, first_ms - pause_ms as i64),
                artefact: json!({"engine": "R", "probe": "interrupt", "delay_ms": pr.0, "pause_ms": pr.1, "signals": pr.2}), count: 1 });
            }
          }
        }
      }
    }
    o.cov("real_descriptor_tier", json!({"what": "the unmodified RealDriver + loop on the machine's clock; a Special repeat fires, the armed epoll_wait time-out is read from /proc/<tid>/syscall, the feeder sleeps and interrupts the wait with a signal, the re-armed time-out must be at most the first one minus the pause (one-sided: load only makes it smaller)", "probes": notes}));
  }
  if o.machinery_error.is_none() && o.violations.is_empty() {
    let need: Vec<&str> = match id {
      "C10" => vec!["step_outputs_written", "wakeups_with_several_events", "executions_ending_with_device_gone"],
      "C11" => vec!["chords_written", "ticks_with_a_chord_key_held", "late_ticks", "timers_cancelled_by_event", "ignored_events_while_timer_live"],
      "C12" => vec!["reset_batches_written", "keyboard_events_read_in_tablet_mode"],
      "C20" => vec!["faults_at_poll", "faults_at_send", "faults_at_next_keyboard", "faults_at_next_tablet", "faults_at_register_poll"],
      _ => vec![],
    };
    for n in need { if total.counters.get(n).cloned().unwrap_or(0) == 0 { o.machinery_error = Some(format!("vacuity: counter {} is zero in this tier", n)); } }
  }
  o
}

fn chord_signature(_prop: &str, _clause: &str, _detail: &str) -> Option<String> { None }

pub fn env_json(c: &EnvCfg) -> Value {
  json!({"alphabet": c.alphabet.iter().map(|k| format!("{}", k)).collect::<Vec<_>>(), "max_events": c.max_events, "max_tablet": c.max_tablet, "devs": c.devs, "ticks": c.ticks, "tablet_end": c.tablet_end, "late_us": c.late_us, "exact_deadline_arrival": c.exact_deadline_arrival, "max_calls": c.max_calls,
    "script": c.script.iter().map(|e| match e { crate::keys::Event::Pressed(k) => format!("+{}", k), crate::keys::Event::Released(k) => format!("-{}", k) }).collect::<Vec<_>>(), "burst_sizes": c.burst_sizes, "max_bursts": c.max_bursts, "single_event_wakeups": c.single_event_wakeups, "verbose": c.verbose, "empty_wakeups": c.empty_wakeups})
}

pub fn replay_artefact(v: &Value) -> i32 {
  let layout: Layout = match serde_json::from_value(v["layout"].clone()) { Ok(l) => l, Err(e) => { eprintln!("bad layout: {}", e); return 2; } };
  let e = &v["env"];
  let parse_key = |s: &Value| -> KeyCode { serde_json::from_value(s.clone()).expect("key") };
  let cfg = EnvCfg {
    alphabet: e["alphabet"].as_array().unwrap().iter().map(parse_key).collect(),
    max_events: e["max_events"].as_u64().unwrap() as usize, max_tablet: e["max_tablet"].as_u64().unwrap() as usize,
    devs: e["devs"].as_u64().unwrap() as usize, ticks: e["ticks"].as_u64().unwrap() as usize, tablet_end: e["tablet_end"].as_bool().unwrap(),
    late_us: e["late_us"].as_array().unwrap().iter().map(|x| x.as_u64().unwrap()).collect(), exact_deadline_arrival: e["exact_deadline_arrival"].as_bool().unwrap(), max_calls: e["max_calls"].as_u64().unwrap() as usize,
    script: e["script"].as_array().map(|a| a.iter().filter_map(|x| x.as_str()).map(|t| { let k: KeyCode = serde_json::from_value(json!(&t[1..])).expect("key"); if t.starts_with('+') { crate::keys::Event::Pressed(k) } else { crate::keys::Event::Released(k) } }).collect()).unwrap_or_default(),
    burst_sizes: e["burst_sizes"].as_array().map(|a| a.iter().map(|x| x.as_u64().unwrap() as usize).collect()).unwrap_or_default(),
    max_bursts: e["max_bursts"].as_u64().unwrap_or(0) as usize,
    single_event_wakeups: e["single_event_wakeups"].as_bool().unwrap_or(false),
    verbose: e["verbose"].as_bool().unwrap_or(false),
    empty_wakeups: e["empty_wakeups"].as_bool().unwrap_or(false),
  };
  let choices: Vec<u16> = v["choices"].as_array().unwrap().iter().map(|x| x.as_u64().unwrap() as u16).collect();
  let fail_at = v["fail_at"].as_u64().map(|k| k as usize);
  let x = run_once(&layout, &cfg, &choices, fail_at);
  println!("property {} clause {}", v["property"], v["clause"]);
  println!("layout {}", serde_json::to_string(&layout).unwrap());
  for l in log_json(&x.log) { println!("  {}", l); }
  println!("loop returned {:?}", x.result);
  let (d, _) = judge(&layout, &x);
  if let Some(d) = d { println!("first discrepancy: {} / {} at call {}: {}", d.prop, d.clause, d.at_call, d.detail); } else if fail_at.is_none() { println!("no discrepancy"); }
  0
}
