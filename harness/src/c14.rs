// C14 — any layout file is either rejected with a message or runs without crashing (DESIGN §6-C14).
//
// Inputs are enumerated exhaustively from four spaces (byte strings, schema-shaped JSON from an
// atom menu, structure-aware mutations of seed layouts, repeated keys/aliases at every pair of
// positions) and written to a scratch file that the real load_layout_from_file reads, under
// catch_unwind inside worker *processes* (an abort kills a worker, not the verdict).  Every
// accepted layout is installed with Mapper::for_layout and explored by Engine A over its own
// keys; a panic on any transition is a violation with its shortest history.
use crate::common::*;
use crate::corpus::*;
use crate::engine_a::{explore, Opts, P_C14};
use crate::keys::{KeyCode, Layout};
use serde_json::{json, Value};
use std::collections::{BTreeMap, HashSet};
use std::process::Command;

const NUM_PLACEHOLDER: &str = "@@1e400@@";

fn atoms() -> Vec<Value> {
  vec![json!(null), json!(true), json!(false), json!(0), json!(-1), json!(2147483648u64), json!(9223372036854775808u64), json!(1.5), json!(NUM_PLACEHOLDER),
    json!(""), json!("A"), json!("1"), json!("@"), json!("@s"), json!("@zz"), json!("NOSUCH"), json!("LEFTSHIFT"), json!("\u{1F600}"), json!([]), json!({}),
    json!(["A", "A"]), json!({"row": "A"}), json!({"letters": "aa"}), json!({"letters": "aaaaaaaaaaaaaaaaaaaaaaaa"}), json!({"row": "A", "x": 1}), json!("Disabled"),
    json!({"Special": {"keys": ["A", "A"], "delay_ms": -5, "interval_ms": 0}}), json!({"Special": {"keys": "F21", "delay_ms": 1e300, "interval_ms": "x"}}), json!(["@s", "@s", "A"]), json!(["LEFTSHIFT", {"letters": "A"}])]
}

fn to_text(v: &Value) -> String { serde_json::to_string(v).unwrap().replace(&format!("\"{}\"", NUM_PLACEHOLDER), "1e400") }

fn seeds() -> Vec<Value> {
  let mut s: Vec<Value> = vec![];
  for n in ["caps-q-for-esc", "easy-symbols", "caps-for-movement"] { if let Some(t) = crate::default_fancy_layouts::DEFAULT_LAYOUTS.get(n) { if let Ok(mut v) = serde_json::from_str::<Value>(t) { if let Some(a) = v["mappings"].as_array_mut() { a.truncate(5); } s.push(v); } } }
  s.push(json!({"mappings": [{"from": "LEFTSHIFT", "to": "@s"}, {"from": "RIGHTSHIFT", "to": "@s"},
    {"from": ["@s", {"row": "Q"}], "to": ["RIGHTALT", {"letters": ":<"}], "absorbing": "@s", "repeat": "Disabled"},
    {"from": ["@s", "SPACE"], "to": ["@s", "N"], "repeat": {"Special": {"keys": ["@s", "F20"], "delay_ms": 180, "interval_ms": 30}}, "absorbing": ["@s"]},
    {"from": "J", "repeat": {"Special": {"keys": "F21", "delay_ms": 180, "interval_ms": 30}}},
    {"from": ["CAPSLOCK", "TAB"], "to": ["LEFTCTRL", "@m"]}, {"from": ["@m", "J"], "to": "LEFT"}]}));
  s.push(json!({"mappings": [{"from": ["LEFTSHIFT", "L"], "to": ["LEFTSHIFT", "N"], "absorbing": ["LEFTSHIFT"]}, {"from": ["SEMICOLON"], "to": ["S"], "repeat": {"Special": {"keys": ["F21"], "delay_ms": 180, "interval_ms": 30}}}, {"from": {"row": "A"}, "to": {"letters": "aoeu"}, "repeat": {"Special": {"keys": {"letters": "ab"}, "delay_ms": 1, "interval_ms": 2}}}]}));
  s
}

fn nodes(v: &Value, path: &mut Vec<String>, out: &mut Vec<Vec<String>>) {
  out.push(path.clone());
  match v {
    Value::Array(a) => { for (i, x) in a.iter().enumerate() { path.push(i.to_string()); nodes(x, path, out); path.pop(); } }
    Value::Object(o) => { for (k, x) in o.iter() { path.push(k.clone()); nodes(x, path, out); path.pop(); } }
    _ => {}
  }
}
fn get_mut<'a>(v: &'a mut Value, path: &[String]) -> Option<&'a mut Value> {
  let mut cur = v;
  for p in path { cur = match cur { Value::Array(a) => a.get_mut(p.parse::<usize>().ok()?)?, Value::Object(o) => o.get_mut(p)?, _ => return None }; }
  Some(cur)
}

/// all single mutations of `seed` at `path`: every atom, wrap, duplicate, delete, sibling copy
fn mutations_at(seed: &Value, path: &[String], atoms: &[Value]) -> Vec<Value> {
  let mut out = vec![];
  for a in atoms { let mut v = seed.clone(); if let Some(x) = get_mut(&mut v, path) { *x = a.clone(); out.push(v); } }
  { let mut v = seed.clone(); if let Some(x) = get_mut(&mut v, path) { let c = x.clone(); *x = json!([c.clone(), c]); out.push(v); } }
  { let mut v = seed.clone(); if let Some(x) = get_mut(&mut v, path) { let c = x.clone(); *x = json!([c]); out.push(v); } }
  if let Some((last, parent)) = path.split_last() {
    let mut v = seed.clone();
    match get_mut(&mut v, parent) { Some(Value::Array(a)) => { if let Ok(i) = last.parse::<usize>() { if i < a.len() { let x = a[i].clone(); a.insert(i, x); } } } Some(Value::Object(o)) => { o.remove(last); } _ => {} }
    out.push(v);
    let mut v = seed.clone();
    match get_mut(&mut v, parent) { Some(Value::Array(a)) => { if let Ok(i) = last.parse::<usize>() { if i < a.len() { a.remove(i); } } } Some(Value::Object(o)) => { if let Some(x) = o.get(last).cloned() { o.insert(format!("{}2", last), x); } } _ => {} }
    out.push(v);
  }
  out
}

/// the structured input spaces (ii)-(iv) as texts, in a fixed order
fn structured_inputs(thorough: bool) -> Vec<String> {
  let at = atoms();
  let mut out: Vec<String> = vec![];
  // (ii) schema-shaped values of depth <= 3 from the atom menu
  for a in &at { out.push(to_text(a)); out.push(to_text(&json!({ "mappings": a }))); out.push(to_text(&json!({"mappings": [a]}))); out.push(to_text(&json!({"mappings": [], "x": a}))); }
  for f in &at { for t in &at {
    out.push(to_text(&json!({"mappings": [{"from": f, "to": t}]})));
    out.push(to_text(&json!({"mappings": [{"from": "LEFTSHIFT", "to": "@s"}, {"from": f, "to": t}]})));
  } }
  for f in &at { for r in &at { out.push(to_text(&json!({"mappings": [{"from": f, "repeat": r}]}))); out.push(to_text(&json!({"mappings": [{"from": ["CAPSLOCK", "J"], "to": f, "repeat": r}]}))); out.push(to_text(&json!({"mappings": [{"from": "LEFTSHIFT", "to": "@s"}, {"from": ["@s", "J"], "to": f, "absorbing": r}]}))); } }
  if thorough { for f in &at { for t in &at { for r in &at { out.push(to_text(&json!({"mappings": [{"from": f, "to": t, "repeat": r}]}))); out.push(to_text(&json!({"mappings": [{"from": f, "to": t, "absorbing": r}]}))); } } } }
  for k in &at { for d in &at { for i in &at { out.push(to_text(&json!({"mappings": [{"from": "J", "to": "K", "repeat": {"Special": {"keys": k, "delay_ms": d, "interval_ms": i}}}]}))); } } }
  // (ii-b) sizes: deep nesting and long strings / lists around every power of two
  for n in [1usize, 2, 3, 8, 16, 64, 126, 127, 128, 129, 130, 255, 256, 257, 1000, 5000] {
    out.push("[".repeat(n)); out.push(format!("{}{}", "[".repeat(n), "]".repeat(n))); out.push(format!("{}1{}", "{\"a\":".repeat(n), "}".repeat(n)));
    out.push(format!("{{\"mappings\":{}{}}}", "[".repeat(n), "]".repeat(n)));
    out.push(to_text(&json!({"mappings": [{"from": {"row": "Q"}, "to": {"letters": "a".repeat(n)}}]})));
    out.push(to_text(&json!({"mappings": [{"from": {"row": "Q"}, "to": {"letters": " ".repeat(n)}}]})));
    out.push(to_text(&json!({"mappings": [{"from": std::iter::repeat("LEFTSHIFT").take(n).chain(std::iter::once("A")).collect::<Vec<_>>(), "to": "B"}]})));
    out.push(to_text(&json!({"mappings": [{"from": "A", "to": std::iter::repeat("B").take(n).collect::<Vec<_>>()}]})));
    out.push(to_text(&json!({"mappings": (0..n.min(300)).map(|i| json!({"from": ["CAPSLOCK", "J"], "to": if i % 2 == 0 { "LEFT" } else { "RIGHT" }})).collect::<Vec<_>>()})));
    out.push(to_text(&json!({"mappings": [{"from": "J", "to": "K", "repeat": {"Special": {"keys": std::iter::repeat("F21").take(n).collect::<Vec<_>>(), "delay_ms": n, "interval_ms": n}}}]})));
  }
  // (ii-c) rows whose letters are as long as / longer than the physical row, with a multi-byte character at every position
  for (row, len) in [("`", 13usize), ("1", 12), ("Q", 12), ("A", 11), ("Z", 10)] {
    for total in len.saturating_sub(1)..=len + 3 { for pos in 0..total { for wide in ['\u{df}', '\u{20ac}', '\u{1F600}'] {
      let letters: String = (0..total).map(|i| if i == pos { wide } else { 'a' }).collect();
      out.push(to_text(&json!({"mappings": [{"from": {"row": row}, "to": {"letters": letters}}]})));
      out.push(to_text(&json!({"mappings": [{"from": {"row": row}, "to": {"letters": "a".repeat(total)}, "repeat": {"Special": {"keys": {"letters": letters}, "delay_ms": 1, "interval_ms": 1}}}]})));
    } } }
  }
  // (ii-d) rejected mappings whose text carries a multi-byte character at every byte offset up to 300 (error messages that
  // quote or abbreviate the offending JSON must not slice inside a character)
  for pad in 0..300usize { for wide in ['\u{df}', '\u{20ac}', '\u{1F600}'] {
    let tail: String = std::iter::repeat(wide).take(4).collect();
    let filler = "a".repeat(pad);
    out.push(to_text(&json!({"mappings": [{"from": "A", "to": "B", "repeat": format!("{}{}", filler, tail)}]})));
    out.push(to_text(&json!({"mappings": [{"from": format!("{}{}", filler, tail), "to": "B"}]})));
    out.push(to_text(&json!({"mappings": [{"from": {"row": "A"}, "to": {"letters": format!("{}{}", filler, tail)}, "repeat": "Disable"}]})));
    out.push(to_text(&json!({"mappings": [{"from": ["@zz", "A"], "to": "B", "comment": format!("{}{}", filler, tail)}]})));
    out.push(to_text(&json!({"mappings": [{"from": "A", "to": "B", "absorbing": [format!("{}{}", filler, tail)]}], "x": format!("{}{}", filler, tail)})));
  } }
  // (iii) structure-aware mutations of the seeds: all single mutations; thorough: all pairs within one mapping object
  for seed in seeds() {
    let mut ns = vec![]; nodes(&seed, &mut vec![], &mut ns);
    for path in &ns { for v in mutations_at(&seed, path, &at) { out.push(to_text(&v)); } }
    if thorough {
      let nm = seed["mappings"].as_array().map(|a| a.len()).unwrap_or(0);
      for mi in 0..nm {
        let inside: Vec<&Vec<String>> = ns.iter().filter(|p| p.len() >= 3 && p[0] == "mappings" && p[1] == mi.to_string()).collect();
        for (ai, pa) in inside.iter().enumerate() { for pb in inside.iter().skip(ai + 1) {
          if pb.starts_with(pa) { continue; }
          for va in mutations_at(&seed, pa, &at[..at.len().min(20)]) { for a2 in at.iter().take(20) { let mut v = va.clone(); if let Some(x) = get_mut(&mut v, pb) { *x = a2.clone(); out.push(to_text(&v)); } } }
        } }
      }
    }
  }
  // (iv) repeated keys and repeated aliases at every pair of positions of from / to / repeat keys / absorbing
  let base_keys = ["LEFTSHIFT", "CAPSLOCK", "J", "K", "@s", "@t"];
  let lens = if thorough { 4 } else { 3 };
  let mut lists: Vec<Vec<&str>> = vec![vec![]];
  let mut level: Vec<Vec<&str>> = vec![vec![]];
  for _ in 0..lens { let mut next = vec![]; for l in &level { for k in base_keys.iter() { let mut t = l.clone(); t.push(*k); next.push(t); } } lists.extend(next.iter().cloned()); level = next; }
  let defs = json!([{"from": "LEFTSHIFT", "to": "@s"}, {"from": "RIGHTSHIFT", "to": "@s"}, {"from": "CAPSLOCK", "to": "@t"}, {"from": ["TAB", "K"], "to": ["J", "@t"]}]);
  for l in &lists {
    for which in 0..4 {
      let mut m = json!({"from": ["@s", "J"], "to": ["@s", "K"]});
      match which { 0 => m["from"] = json!(l), 1 => m["to"] = json!(l), 2 => m["repeat"] = json!({"Special": {"keys": l, "delay_ms": 1, "interval_ms": 1}}), _ => { m["from"] = json!(["@s", "@t", "LEFTSHIFT", "J"]); m["absorbing"] = json!(l); } }
      let mut ms = defs.as_array().unwrap().clone(); ms.push(m);
      out.push(to_text(&json!({ "mappings": ms })));
    }
  }
  out
}

fn byte_space(maxlen: usize) -> u64 { (0..=maxlen as u32).map(|l| 256u64.pow(l)).sum() }
fn bytes_of(mut i: u64, maxlen: usize) -> Vec<u8> {
  let mut len = 0;
  loop { let n = 256u64.pow(len); if i < n { break; } i -= n; len += 1; if len as usize > maxlen { unreachable!(); } }
  (0..len).map(|p| ((i >> (8 * p)) & 0xff) as u8).collect()
}

fn scratch_path(tag: usize) -> String {
  let dir = if std::path::Path::new("/dev/shm").is_dir() { "/dev/shm".to_string() } else { "/verif/.target".to_string() };
  format!("{}/tmverif-c14-{}-{}.json", dir, std::process::id(), tag)
}

#[derive(Default)]
struct WAcc { n: u64, accepted: u64, rejected: u64, explored: u64, states: u64, transitions: u64, panics: BTreeMap<String, (u64, String, Value)>, distinct_accepted: HashSet<String> }

fn try_input(bytes: &[u8], path: &str, acc: &mut WAcc, n_keys_cap: usize, bound: usize) {
  acc.n += 1;
  if std::fs::write(path, bytes).is_err() { return; }
  let r = std::panic::catch_unwind(|| crate::layout_loading::load_layout_from_file(path));
  let show = || String::from_utf8_lossy(bytes).chars().take(600).collect::<String>();
  let layout = match r {
    Err(p) => { let msg = format!("loading panicked: {}", panic_text(&p)); let e = acc.panics.entry(msg).or_insert((0, show(), json!({"input_text": String::from_utf8_lossy(bytes), "input_bytes_hex": bytes.iter().take(64).map(|b| format!("{:02x}", b)).collect::<String>()}))); e.0 += 1; return; }
    Ok(Err(_)) => { acc.rejected += 1; return; }
    Ok(Ok(l)) => l,
  };
  acc.accepted += 1;
  let canon = serde_json::to_string(&layout).unwrap();
  if !acc.distinct_accepted.insert(canon) { return; }
  // install and drive it with every history over its own keys
  let mut keys = mentioned_keys(&layout);
  keys.truncate(n_keys_cap);
  let alphabet = with_foreign(keys, &layout, 1);
  let opts = Opts { n: bound, max_states: 300_000, props: 0, stop_prop: 0, known: vec![], conformance_stride: 1 << 30, keep_samples: 0, max_depth: 48, inner_threads: 1 };
  let res = explore(&layout, &alphabet, &opts);
  acc.explored += 1; acc.states += res.states as u64; acc.transitions += res.transitions;
  if let Some((hist, msg)) = res.panic {
    let e = acc.panics.entry(format!("the mapper panicked on an accepted layout: {}", msg)).or_insert((0, show(), json!({"input_text": String::from_utf8_lossy(bytes), "layout": layout_json(&layout), "history": hist.iter().map(|h| h.to_json()).collect::<Vec<_>>(), "history_text": hist.iter().map(|h| h.short()).collect::<Vec<_>>().join(" ")})));
    e.0 += 1;
  }
}

fn panic_text(p: &Box<dyn std::any::Any + Send>) -> String { p.downcast_ref::<String>().cloned().or(p.downcast_ref::<&str>().map(|s| s.to_string())).unwrap_or_else(|| "panic".into()) }

/// child process: handles the inputs with index ≡ chunk (mod nchunks)
pub fn worker(tier: &str, chunk: usize, nchunks: usize) -> i32 {
  std::panic::set_hook(Box::new(|_| {}));
  let thorough = tier == "thorough";
  let maxlen = if thorough { 3 } else { 2 };
  let (cap, bound) = if thorough { (8, 3) } else { (6, 2) };
  let path = scratch_path(chunk);
  let mut acc = WAcc::default();
  let nb = byte_space(maxlen);
  let mut i = chunk as u64;
  while i < nb { try_input(&bytes_of(i, maxlen), &path, &mut acc, cap, bound); i += nchunks as u64; }
  let bytes_n = acc.n;
  let texts = structured_inputs(thorough);
  let mut j = chunk;
  while j < texts.len() { try_input(texts[j].as_bytes(), &path, &mut acc, cap, bound); j += nchunks; }
  let _ = std::fs::remove_file(&path);
  println!("{}", json!({"n": acc.n, "byte_strings": bytes_n, "structured": acc.n - bytes_n, "accepted": acc.accepted, "rejected": acc.rejected, "explored": acc.explored, "states": acc.states, "transitions": acc.transitions,
    "distinct_accepted": acc.distinct_accepted.len(), "panics": acc.panics.iter().map(|(k, v)| json!({"message": k, "count": v.0, "first": v.1, "artefact": v.2})).collect::<Vec<_>>()}));
  0
}

/// End-to-end tier (DESIGN 5.5): the real binary's own loading path (main.rs: `remap --layout-file F`, no device given, so
/// the run ends right after loading) over the structured inputs and the shortest byte strings.  Whatever F holds, the
/// process must end by itself with an ordinary exit status: a panic (status 101) or a signal is a crash.
pub struct BinTier { pub invocations: u64, pub accepted: u64, pub rejected: u64, pub crashes: Vec<(String, String, Value, u64)>, pub machinery: Option<String>, pub stride: usize }

pub fn binary_tier(ctx: &Ctx) -> Option<BinTier> {
  use crate::e2e::*;
  if !available() { return None; }
  let thorough = ctx.tier == Tier::Thorough;
  let mut inputs: Vec<Vec<u8>> = vec![];
  for i in 0..byte_space(1) { inputs.push(bytes_of(i, 1)); }
  let texts = structured_inputs(thorough);
  let budget = if thorough { 200_000 } else { 24_000 };
  let stride = (texts.len() + budget - 1) / budget;
  for (i, t) in texts.iter().enumerate() { if i % stride.max(1) == 0 { inputs.push(t.as_bytes().to_vec()); } }
  let cases: Vec<Case> = inputs.iter().map(|b| Case { layout: LayoutArg::File(b.clone()), excludes: vec![], install: false }).collect();
  let mut t = BinTier { invocations: cases.len() as u64, accepted: 0, rejected: 0, crashes: vec![], machinery: None, stride: stride.max(1) };
  let obs = match run_cases(&cases, ctx.threads) { Ok(o) => o, Err(e) => { if e.starts_with("unavailable") { return None; } t.machinery = Some(e); return Some(t); } };
  for (b, o) in inputs.iter().zip(obs.iter()) {
    match (o.status, o.signal) {
      (Some(0), _) => t.accepted += 1,
      (Some(1), _) => t.rejected += 1,
      (st, sg) => {
        let first_line = o.stderr.lines().find(|l| l.contains("panicked")).unwrap_or(o.stderr.lines().next().unwrap_or("")).to_string();
        // "thread 'main' (12345) panicked at ..." carries the thread id: drop it so that one defect is one class
        let first_line = match (first_line.find("' ("), first_line.find(") panicked")) { (Some(a), Some(b)) if a < b => format!("{}'{}", &first_line[..a], &first_line[b + 1..]), _ => first_line };
        let key = format!("status {:?} signal {:?}: {}", st, sg, truncate(&first_line, 200));
        let show: String = String::from_utf8_lossy(b).chars().take(600).collect();
        match t.crashes.iter_mut().find(|c| c.0 == key) {
          Some(c) => { c.3 += 1; if show.len() < c.1.len() { c.1 = show.clone(); c.2 = json!({"input_text": String::from_utf8_lossy(b), "tier": "real-binary"}); } }
          None => t.crashes.push((key, show, json!({"input_text": String::from_utf8_lossy(b), "tier": "real-binary", "stderr": truncate(&o.stderr, 600)}), 1)),
        }
      }
    }
  }
  Some(t)
}

pub fn run(ctx: &Ctx) -> Outcome {
  let mut o = Outcome::new("exploration");
  let nchunks = ctx.threads * 2;
  let me = std::env::current_exe().unwrap();
  let tier = ctx.tier.name();
  let results: Vec<Result<Value, String>> = par_map(nchunks, ctx.threads, |c| {
    let out = Command::new(&me).args(["c14-worker", tier, &c.to_string(), &nchunks.to_string()]).output().map_err(|e| e.to_string())?;
    if !out.status.success() { return Err(format!("worker {} of {} died with status {:?} (signal/abort while loading or driving an input): {}", c, nchunks, out.status, String::from_utf8_lossy(&out.stderr).chars().take(400).collect::<String>())); }
    serde_json::from_slice::<Value>(&out.stdout).map_err(|e| format!("worker output: {}", e))
  });
  let mut n = 0u64; let mut bytes_n = 0u64; let mut structured = 0u64; let mut accepted = 0u64; let mut rejected = 0u64; let mut explored = 0u64; let mut states = 0u64; let mut transitions = 0u64; let mut distinct = 0u64;
  let mut panics: BTreeMap<String, (u64, String, Value)> = BTreeMap::new();
  for (ci, r) in results.into_iter().enumerate() {
    match r {
      Err(e) => { o.violations.push(Violation { property: "C14".into(), clause: "process-crashed".into(), signature: None, description: e, artefact: json!({"engine": "C14", "chunk": ci, "nchunks": nchunks, "tier": tier}), count: 1 }); }
      Ok(v) => {
        n += v["n"].as_u64().unwrap_or(0); bytes_n += v["byte_strings"].as_u64().unwrap_or(0); structured += v["structured"].as_u64().unwrap_or(0); accepted += v["accepted"].as_u64().unwrap_or(0); rejected += v["rejected"].as_u64().unwrap_or(0);
        explored += v["explored"].as_u64().unwrap_or(0); states += v["states"].as_u64().unwrap_or(0); transitions += v["transitions"].as_u64().unwrap_or(0); distinct += v["distinct_accepted"].as_u64().unwrap_or(0);
        for p in v["panics"].as_array().cloned().unwrap_or_default() {
          let e = panics.entry(p["message"].as_str().unwrap_or("").to_string()).or_insert((0, p["first"].as_str().unwrap_or("").to_string(), p["artefact"].clone()));
          e.0 += p["count"].as_u64().unwrap_or(0);
          if p["first"].as_str().map(|s| s.len()).unwrap_or(usize::MAX) < e.1.len() { e.1 = p["first"].as_str().unwrap().to_string(); e.2 = p["artefact"].clone(); }
        }
      }
    }
  }
  o.cov("evaluations", n);
  o.cov("distinct_nontrivial", distinct);
  o.cov("byte_strings", bytes_n);
  o.cov("structured_inputs", structured);
  o.cov("accepted", accepted);
  o.cov("rejected_with_message", rejected);
  o.cov("accepted_layouts_explored_by_engine_a", explored);
  o.cov("states", states);
  o.cov("transitions", transitions);
  o.cov("exhaustive", true);
  o.cov("rule", format!("(i) every byte string of length 0..={}; (ii) schema-shaped JSON values from a {}-atom menu at every position of the layout schema; (iii) every single structure-aware mutation (every atom, wrap, duplicate, delete, sibling copy) of every JSON node of {} seed layouts{}; (iv) every list of length 0..={} over {{LEFTSHIFT, CAPSLOCK, J, K, @s, @t}} as from / to / repeat keys / absorbing. Each input is written to a file and read by the real load_layout_from_file under catch_unwind in worker processes; when `unshare -m` is available the byte strings of length <= 1 and the structured inputs (every k-th if there are more than the tier's budget, k in real_binary_structured_input_stride) are also given to the real binary (`totalmapper remap --layout-file F`, guard off, main.rs's own loading path), which must end with exit status 0 or 1, never a panic or a signal; distinct_nontrivial = distinct accepted layouts (by converted value, per worker), each installed with Mapper::for_layout and explored by Engine A (BFS to fixpoint, N={} keys held, its own keys + foreign keys, ill-formed events and release_all included). The generated layout families of the mapper properties (the whole plan of C01 except the large fixed layouts: singles, pairs, Q4, S4, O3, M2, M3, NR4, K1-K4; up to four keys held) are explored the same way with no predicate, for panics only.", if ctx.tier == Tier::Thorough { 3 } else { 2 }, atoms().len(), seeds().len(), if ctx.tier == Tier::Thorough { " and all pairs within one mapping object" } else { "" }, if ctx.tier == Tier::Thorough { 4 } else { 3 }, if ctx.tier == Tier::Thorough { 3 } else { 2 }));
  o.cov("samples", json!([{"input": "{\"mappings\":[{\"from\":[\"@s\",\"@s\",\"A\"],\"to\":\"X\"}]}"}, {"input_bytes_hex": "7b7d"}, {"input": to_text(&json!({"mappings": [{"from": "J", "to": "K", "repeat": {"Special": {"keys": "F21", "delay_ms": NUM_PLACEHOLDER, "interval_ms": 0}}}]}))}]));
  o.assumptions = vec!["resource exhaustion (alias products of astronomically many combinations) is out of scope".into(), "every byte string is covered completely only up to the length bound; longer inputs are reached through the structured generators".into()];
  for (msg, (count, first, art)) in &panics {
    let mut a = art.clone(); a["engine"] = json!("C14");
    let clause = if msg.starts_with("loading") { "loader-panics" } else { "mapper-panics-on-accepted-layout" };
    o.violations.push(Violation { property: "C14".into(), clause: clause.into(), signature: None, description: format!("{} — first input: {}", msg, first), artefact: a, count: *count });
  }
  if accepted == 0 || rejected == 0 { o.machinery_error = Some("vacuity: no accepted or no rejected input".into()); }
  // the mapper half on the generated layout families of Engine A (no predicate, panics only): layouts that absorb two
  // keys, four keys held, every key code in every role ... - what the loader corpus above does not contain
  {
    let (agg, nfam) = crate::props_a::panic_sweep(ctx);
    o.cov("generated_layouts_swept_for_panics", agg.layouts);
    o.cov("generated_layout_families", nfam as u64);
    o.cov("states", states + agg.states);
    o.cov("transitions", transitions + agg.transitions);
    if !agg.incomplete.is_empty() && agg.panics.is_empty() { o.machinery_error = Some(format!("panic sweep: state cap reached before the declared space was covered: {}", agg.incomplete[0])); }
    let mut seen_msgs: BTreeMap<String, u64> = BTreeMap::new();
    for (_, _, msg) in &agg.panics { *seen_msgs.entry(msg.clone()).or_insert(0) += 1; }
    let mut reported: HashSet<String> = HashSet::new();
    for (l, hist, msg) in &agg.panics {
      if !reported.insert(msg.clone()) { continue; }
      let art = json!({"engine": "C14", "input_text": l["layout"].to_string(), "layout_name": l["name"], "layout": l["layout"], "bound_keys_held": l["bound"], "history": hist.iter().map(|h| h.to_json()).collect::<Vec<_>>(), "history_text": hist.iter().map(|h| h.short()).collect::<Vec<_>>().join(" ")});
      o.violations.push(Violation { property: "C14".into(), clause: "mapper-panics-on-accepted-layout".into(), signature: None, description: format!("the mapper panicked on a generated layout ({}): {} after {}", l["name"], msg, hist.iter().map(|h| h.short()).collect::<Vec<_>>().join(" ")), artefact: art, count: seen_msgs[msg] });
    }
  }
  match binary_tier(ctx) {
    None => { o.cov("real_binary_tier", "unavailable"); }
    Some(t) => {
      o.cov("real_binary_tier", "ran");
      o.cov("real_binary_invocations", t.invocations);
      o.cov("real_binary_accepted", t.accepted);
      o.cov("real_binary_rejected_with_exit_1", t.rejected);
      o.cov("real_binary_structured_input_stride", t.stride as u64);
      o.cov("evaluations", n + t.invocations);
      if let Some(e) = t.machinery { o.machinery_error = Some(format!("real-binary tier: {}", e)); }
      else if t.accepted == 0 || t.rejected == 0 { o.machinery_error = Some("vacuity: the real binary accepted no input or rejected none".into()); }
      for (msg, first, art, count) in t.crashes {
        let mut a = art.clone(); a["engine"] = json!("C14");
        o.violations.push(Violation { property: "C14".into(), clause: "binary-crashes-on-layout-file".into(), signature: None, description: format!("`totalmapper remap --layout-file F` ended with {} — first input: {}", msg, first), artefact: a, count });
      }
    }
  }
  o
}

pub fn replay_artefact(v: &Value) -> i32 {
  std::panic::set_hook(Box::new(|_| {}));
  let text = v["input_text"].as_str().unwrap_or("").to_string();
  println!("input: {}", text);
  let path = scratch_path(999_999);
  let _ = std::fs::write(&path, text.as_bytes());
  let r = std::panic::catch_unwind(|| crate::layout_loading::load_layout_from_file(&path));
  let _ = std::fs::remove_file(&path);
  match r {
    Err(p) => println!("load_layout_from_file PANICKED: {}", panic_text(&p)),
    Ok(Err(e)) => println!("rejected with message: {}", e),
    Ok(Ok(l)) => {
      println!("accepted: {}", serde_json::to_string(&l).unwrap());
      let hist: Vec<crate::engine_a::Inp> = v["history"].as_array().map(|a| a.iter().filter_map(crate::engine_a::Inp::from_json).collect()).unwrap_or_default();
      let r = std::panic::catch_unwind(|| { let (fp, _) = crate::engine_a::replay_path(&l, &hist); fp });
      match r { Ok(fp) => println!("Mapper::for_layout + history {:?}: no panic; state {}", hist.iter().map(|h| h.short()).collect::<Vec<_>>(), fp), Err(p) => println!("Mapper::for_layout + history {:?} PANICKED: {}", hist.iter().map(|h| h.short()).collect::<Vec<_>>(), panic_text(&p)) }
    }
  }
  0
}
