// tmverif — exhaustive-exploration harness for ellbur/totalmapper.
//
// The repository's modules are compiled *from /repo/src as they are now* (cargo's
// dep-info lists them, so any edit there triggers a rebuild).  They are declared at
// this crate's root under their own names so every `crate::…` path inside them
// resolves unchanged.  Private items are reached only through the hooks guarded by
// `--cfg ellbur_totalmapper_verif`.
#![allow(dead_code, unused_imports, unused_variables, unused_mut)]
#[macro_use]
extern crate enum_display_derive;

#[path = "/repo/src/key_codes.rs"] mod key_codes;
#[path = "/repo/src/events.rs"] mod events;
#[path = "/repo/src/keys.rs"] mod keys;
#[path = "/repo/src/fancy_keys.rs"] mod fancy_keys;
#[path = "/repo/src/fancy_layout_interpreting.rs"] mod fancy_layout_interpreting;
#[path = "/repo/src/key_transforms.rs"] mod key_transforms;
#[path = "/repo/src/dev_input_rw.rs"] mod dev_input_rw;
#[path = "/repo/src/struct_ser.rs"] mod struct_ser;
#[path = "/repo/src/default_fancy_layouts.rs"] mod default_fancy_layouts;
#[path = "/repo/src/remapping_loop.rs"] mod remapping_loop;
#[path = "/repo/src/keyboard_listing.rs"] mod keyboard_listing;
#[path = "/repo/src/udev_utils.rs"] mod udev_utils;
#[path = "/repo/src/layout_loading.rs"] mod layout_loading;
#[path = "/repo/src/tablet_mode_switch_reader.rs"] mod tablet_mode_switch_reader;
#[path = "/repo/src/layout_parsing_formatting.rs"] mod layout_parsing_formatting;
#[path = "/repo/src/char_production_map.rs"] mod char_production_map;
#[path = "/repo/src/physical_keyboard_layouts.rs"] mod physical_keyboard_layouts;
#[path = "/repo/src/example_hardware.rs"] mod example_hardware;

mod common;
mod corpus;
mod engine_a;
mod props_a;
mod engine_b;
mod props_b;
mod engine_r;
mod c17;
mod c18;
mod c16;
mod c13;
mod c15;
mod c14;
mod e2e;

use common::*;

fn usage() -> ! {
  eprintln!("usage: tmverif run <C01..C20> [--tier quick|thorough]\n       tmverif replay <artefact.json>");
  std::process::exit(2)
}

fn main() {
  let args: Vec<String> = std::env::args().collect();
  if args.len() < 2 { usage(); }
  match args[1].as_str() {
    "run" => {
      if args.len() < 3 { usage(); }
      let id = args[2].clone();
      let mut tier = std::env::var("VERIF_TIER").unwrap_or_else(|_| "quick".to_string());
      let mut i = 3;
      while i < args.len() {
        if args[i] == "--tier" && i + 1 < args.len() { tier = args[i + 1].clone(); i += 2; } else { usage(); }
      }
      let tier = match tier.as_str() { "quick" => Tier::Quick, "thorough" => Tier::Thorough, _ => usage() };
      let code = run_check(&id, tier);
      std::process::exit(code);
    }
    "ns-worker" => {
      if args.len() < 3 { usage(); }
      std::process::exit(c16::ns_worker(&args[2]));
    }
    "c14-worker" => {
      if args.len() < 5 { usage(); }
      std::process::exit(c14::worker(&args[2], args[3].parse().unwrap(), args[4].parse().unwrap()));
    }
    "e2e-ns-worker" => {
      if args.len() < 4 { usage(); }
      std::process::exit(e2e::ns_worker(&args[2], &args[3]));
    }
    "c15-ns-worker" => { std::process::exit(c15::ns_worker()); }
    "replay" => {
      if args.len() < 3 { usage(); }
      std::process::exit(replay(&args[2]));
    }
    _ => usage(),
  }
}

fn run_check(id: &str, tier: Tier) -> i32 {
  let ctx = Ctx::new(id, tier);
  let r = std::panic::catch_unwind(std::panic::AssertUnwindSafe(|| -> Outcome {
    match id {
      "C01" | "C02" | "C03" | "C04" | "C05" | "C06" | "C07" | "C08" | "C09" | "C19" | "AALL" => props_a::run(&ctx),
      "C10" | "C11" | "C12" | "C20" => props_b::run(&ctx),
      "C13" => c13::run(&ctx),
      "C14" => c14::run(&ctx),
      "C15" => c15::run(&ctx),
      "C16" => c16::run(&ctx),
      "C17" => c17::run(&ctx),
      "C18" => c18::run(&ctx),
      _ => Outcome::machinery(format!("unknown property {}", id)),
    }
  }));
  match r {
    Ok(o) => ctx.finish(o),
    Err(p) => {
      let msg = p.downcast_ref::<String>().cloned().or(p.downcast_ref::<&str>().map(|s| s.to_string())).unwrap_or_default();
      eprintln!("MACHINERY-FAILURE property={} engine panicked: {}", id, msg);
      2
    }
  }
}

fn replay(path: &str) -> i32 {
  let text = match std::fs::read_to_string(path) { Ok(t) => t, Err(e) => { eprintln!("cannot read {}: {}", path, e); return 2; } };
  let v: serde_json::Value = match serde_json::from_str(&text) { Ok(v) => v, Err(e) => { eprintln!("bad artefact: {}", e); return 2; } };
  match v["engine"].as_str() {
    Some("A") => engine_a::replay_artefact(&v),
    Some("B") => props_b::replay_artefact(&v),
    Some("R") => engine_r::replay_artefact(&v),
    Some("C13") => c13::replay_artefact(&v),
    Some("C14") => c14::replay_artefact(&v),
    Some("C15") => c15::replay_artefact(&v),
    Some("C16") => c16::replay_artefact(&v),
    Some("C17") => c17::replay_artefact(&v),
    Some("C18") => c18::replay_artefact(&v),
    _ => { eprintln!("unknown engine in artefact"); 2 }
  }
}
