// C17 — exclude patterns survive the unit file (DESIGN §5.2, §6-C17).
//
// Reference reader of an `ExecStart=` value after systemd.service(5)/systemd.syntax(7):
// word splitting on unquoted whitespace, quote removal, C-style unescaping, then `%`
// specifier expansion and `$` variable expansion per word.  Independent of udev_utils.rs.
use crate::common::*;
use serde_json::{json, Value};
use std::collections::BTreeMap;

/// specifier letters systemd expands in unit files (systemd.unit(5)); expansion is
/// modelled as a marker that can never equal user text
const SPECIFIERS: &str = "aAbBCdDEfgGhHiIjJlLmMnNopPqrsStTuUvVwWyY";
const MARK: char = '\u{1}';

/// A word is a byte string: `\xHH` and octal escapes produce one raw byte, `\u`/`\U` the UTF-8
/// encoding of the code point (systemd's cunescape), everything else its own UTF-8 bytes.
fn push_char(w: &mut Vec<u8>, c: char) { let mut b = [0u8; 4]; w.extend_from_slice(c.encode_utf8(&mut b).as_bytes()); }

fn split_words(line: &str) -> Result<Vec<Vec<u8>>, String> {
  let cs: Vec<char> = line.chars().collect();
  let ws = |c: char| c == ' ' || c == '\t' || c == '\n' || c == '\r';
  let mut i = 0;
  let mut words = vec![];
  loop {
    while i < cs.len() && ws(cs[i]) { i += 1; }
    if i >= cs.len() { break; }
    let mut w: Vec<u8> = vec![];
    let mut quote: Option<char> = None;
    loop {
      if i >= cs.len() { if quote.is_some() { return Err("unterminated quote".into()); } break; }
      let c = cs[i];
      if let Some(q) = quote {
        if c == q { quote = None; i += 1; continue; }
      } else {
        if c == '\'' || c == '"' { quote = Some(c); i += 1; continue; }
        if ws(c) { break; }
      }
      if c == '\\' {
        i += 1;
        if i >= cs.len() { return Err("trailing backslash".into()); }
        let e = cs[i];
        let simple = match e { 'a' => Some(0x07u8), 'b' => Some(0x08), 'f' => Some(0x0c), 'n' => Some(b'\n'), 'r' => Some(b'\r'), 't' => Some(b'\t'), 'v' => Some(0x0b), '\\' => Some(b'\\'), '"' => Some(b'"'), '\'' => Some(b'\''), 's' => Some(b' '), _ => None };
        if let Some(b) = simple { w.push(b); i += 1; continue; }
        let take_hex = |n: usize| -> Option<u32> { let mut v = 0u32; for j in 1..=n { v = v * 16 + cs.get(i + j)?.to_digit(16)?; } Some(v) };
        match e {
          'x' => { let v = take_hex(2).ok_or("bad \\x escape")?; if v == 0 { return Err("\\x00".into()); } w.push(v as u8); i += 3; }
          'u' => { let v = take_hex(4).ok_or("bad \\u escape")?; if v == 0 { return Err("\\u0000".into()); } push_char(&mut w, char::from_u32(v).ok_or("bad unichar")?); i += 5; }
          'U' => { let v = take_hex(8).ok_or("bad \\U escape")?; if v == 0 { return Err("\\U00000000".into()); } push_char(&mut w, char::from_u32(v).ok_or("bad unichar")?); i += 9; }
          '0'..='7' => {
            let mut v = 0u32;
            for j in 0..3 { v = v * 8 + cs.get(i + j).ok_or("bad octal escape")?.to_digit(8).ok_or("bad octal escape")?; }
            if v == 0 || v > 255 { return Err("bad octal escape".into()); }
            w.push(v as u8); i += 3;
          }
          _ => return Err(format!("unknown escape \\{}", e)),
        }
        continue;
      }
      push_char(&mut w, c);
      i += 1;
    }
    words.push(w);
  }
  Ok(words)
}

const MARKB: u8 = 1;

fn expand_specifiers(w: &[u8]) -> Vec<u8> {
  let mut r = vec![];
  let mut i = 0;
  while i < w.len() {
    if w[i] == b'%' && i + 1 < w.len() {
      let n = w[i + 1];
      if n == b'%' { r.push(b'%'); i += 2; continue; }
      if SPECIFIERS.as_bytes().contains(&n) { r.push(MARKB); r.extend_from_slice(b"SPEC"); r.push(n); r.push(MARKB); i += 2; continue; }
      r.push(b'%'); r.push(n); i += 2; continue;
    }
    r.push(w[i]);
    i += 1;
  }
  r
}

fn is_name_char(c: u8) -> bool { c.is_ascii_alphanumeric() || c == b'_' }

fn expand_env(w: &[u8]) -> Vec<Vec<u8>> {
  // a word that is exactly $NAME is replaced by the (split) value of the variable
  if w.len() >= 2 && w[0] == b'$' && w[1] != b'{' && w[1] != b'$' && w[1..].iter().all(|c| is_name_char(*c)) { return vec![vec![MARKB, b'E', b'N', b'V', b'W', MARKB]]; }
  let mut r = vec![];
  let mut i = 0;
  while i < w.len() {
    if w[i] == b'$' && i + 1 < w.len() {
      let n = w[i + 1];
      if n == b'$' { r.push(b'$'); i += 2; continue; }
      if n == b'{' {
        if let Some(j) = w[i + 2..].iter().position(|c| *c == b'}') { r.push(MARKB); r.extend_from_slice(b"ENV"); r.push(MARKB); i = i + 2 + j + 1; continue; }
      } else if is_name_char(n) {
        let mut j = i + 1;
        while j < w.len() && is_name_char(w[j]) { j += 1; }
        r.push(MARKB); r.extend_from_slice(b"ENV"); r.push(MARKB); i = j; continue;
      }
    }
    r.push(w[i]);
    i += 1;
  }
  vec![r]
}

pub fn read_execstart(unit_text: &str) -> Result<Vec<Vec<u8>>, String> {
  // unit-file line structure (systemd.syntax(7)): a trailing backslash continues the line (it is replaced by a space),
  // and a physical line starting with # or ; is a comment that is ignored even inside a continued line
  let phys: Vec<&str> = unit_text.split('\n').collect();
  let mut i = 0;
  let mut logical: Option<String> = None;
  let mut after: Vec<String> = vec![];
  while i < phys.len() {
    let l = phys[i];
    if logical.is_none() {
      if l.starts_with("ExecStart=") {
        let mut cur = l.to_string();
        while cur.ends_with('\\') {
          cur.pop(); cur.push(' ');
          i += 1;
          // comment test after skipping leading whitespace, as systemd's config parser does
          while i < phys.len() && { let t = phys[i].trim_start_matches(|c| c == ' ' || c == '\t'); t.starts_with('#') || t.starts_with(';') } { i += 1; }
          if i >= phys.len() { break; }
          cur.push_str(phys[i]);
        }
        logical = Some(cur);
      }
    } else if !l.is_empty() { after.push(l.to_string()); }
    i += 1;
  }
  let line = logical.ok_or("no ExecStart line")?;
  // Lines after the ExecStart line: further settings, sections, comments - and even lines systemd cannot parse, which it
  // skips with a warning - do not change what the ExecStart line yields, so they are no business of this property.  A
  // second ExecStart= assignment is: a simple service with two of them is refused ("more than one ExecStart= setting").
  if let Some(l) = after.iter().find(|l| l.trim_start().starts_with("ExecStart=")) { return Err(format!("a second ExecStart= line follows: {:?}", truncate(l, 200))); }
  let words = split_words(&line["ExecStart=".len()..])?;
  let mut out = vec![];
  for w in words { for x in expand_env(&expand_specifiers(&w)) { out.push(x); } }
  Ok(out)
}

/// the argument vector after word splitting, unescaping and specifier expansion but BEFORE $ expansion
/// (what systemd stores in the unit and `systemd-analyze verify` dumps as "Command Line:")
fn read_execstart_pre_env(unit_text: &str) -> Result<Vec<Vec<u8>>, String> {
  let phys: Vec<&str> = unit_text.split('\n').collect();
  let mut i = 0;
  while i < phys.len() && !phys[i].starts_with("ExecStart=") { i += 1; }
  if i >= phys.len() { return Err("no ExecStart line".into()); }
  let mut cur = phys[i].to_string();
  while cur.ends_with('\\') {
    cur.pop(); cur.push(' '); i += 1;
    while i < phys.len() && { let t = phys[i].trim_start_matches(|c| c == ' ' || c == '\t'); t.starts_with('#') || t.starts_with(';') } { i += 1; }
    if i >= phys.len() { break; }
    cur.push_str(phys[i]);
  }
  Ok(split_words(&cur["ExecStart=".len()..])?.iter().map(|w| expand_specifiers(w)).collect())
}

/// parses the display form of `systemd-analyze verify` ("Command Line: a \"b c\" ..."): bare words, or double-quoted
/// words with backslash escapes (\" \\ \$ \` C escapes and 3-digit octal)
fn parse_command_line_display(b: &[u8]) -> Option<Vec<Vec<u8>>> {
  let mut out = vec![]; let mut i = 0;
  while i < b.len() {
    while i < b.len() && b[i] == b' ' { i += 1; }
    if i >= b.len() { break; }
    let mut w = vec![];
    if b[i] == b'"' {
      i += 1;
      loop {
        if i >= b.len() { return None; }
        match b[i] {
          b'"' => { i += 1; break; }
          b'\\' => {
            i += 1; if i >= b.len() { return None; }
            match b[i] {
              b'a' => w.push(7), b'b' => w.push(8), b'f' => w.push(12), b'n' => w.push(b'\n'), b'r' => w.push(b'\r'), b't' => w.push(b'\t'), b'v' => w.push(11),
              b'0'..=b'7' => { if i + 2 >= b.len() { return None; } let v = (b[i] - b'0') as u32 * 64 + (b[i + 1] - b'0') as u32 * 8 + (b[i + 2] - b'0') as u32; w.push(v as u8); i += 2; }
              b'x' => { if i + 2 >= b.len() { return None; } let h = std::str::from_utf8(&b[i + 1..i + 3]).ok()?; w.push(u8::from_str_radix(h, 16).ok()?); i += 2; }
              c => w.push(c),
            }
            i += 1;
          }
          c => { w.push(c); i += 1; }
        }
      }
    } else {
      while i < b.len() && b[i] != b' ' { w.push(b[i]); i += 1; }
    }
    out.push(w);
  }
  Some(out)
}

pub struct RealTier { pub units: u64, pub agree: u64, pub skipped_specifier: u64, pub findings: Vec<(&'static str, String, Vec<String>)>, pub model_errors: Vec<String> }

/// Conformance of the reference reader with the installed systemd (when `systemd-analyze` exists): for a sample of
/// pattern lists the real parser's argument vector must equal the reference reader's pre-$ stage, and, on this tree, the
/// expected vector.  None when systemd-analyze is not available.
pub fn real_systemd_tier(ctx: &Ctx, samples: &[Vec<String>]) -> Option<RealTier> {
  use std::process::Command;
  let ok = Command::new("systemd-analyze").arg("--version").output().map(|o| o.status.success()).unwrap_or(false);
  if !ok { return None; }
  let dir = format!("/verif/.target/sd-{}", std::process::id());
  let _ = std::fs::remove_dir_all(&dir);
  std::fs::create_dir_all(&dir).ok()?;
  let mut t = RealTier { units: 0, agree: 0, skipped_specifier: 0, findings: vec![], model_errors: vec![] };
  let batch = 150;
  let mut start = 0;
  while start < samples.len() {
    let end = (start + batch).min(samples.len());
    let mut names = vec![];
    for i in start..end {
      let refs: Vec<&str> = samples[i].iter().map(|s| s.as_str()).collect();
      let text = crate::udev_utils::verif_build_service_text(&refs);
      let name = format!("tm{}@x.service", i);
      if std::fs::write(format!("{}/{}", dir, name), text.as_bytes()).is_err() { return None; }
      names.push(format!("./{}", name));
    }
    let out = Command::new("systemd-analyze").arg("verify").arg("--man=no").args(&names).current_dir(&dir).env("SYSTEMD_LOG_LEVEL", "debug").output().ok()?;
    // stdout, split on \n only (unit text may contain U+0085 etc.)
    let mut parsed: std::collections::HashMap<usize, Vec<Vec<u8>>> = Default::default();
    let mut cur: Option<usize> = None;
    for line in out.stdout.split(|b| *b == b'\n') {
      let l: &[u8] = { let mut a = 0; while a < line.len() && (line[a] == b'\t' || line[a] == b' ') { a += 1; } &line[a..] };
      if l.starts_with(b"-> Unit tm") { let rest = &l[10..]; let digits: Vec<u8> = rest.iter().take_while(|c| c.is_ascii_digit()).cloned().collect(); cur = String::from_utf8(digits).ok().and_then(|d| d.parse().ok()); }
      else if l.starts_with(b"-> Unit ") { cur = None; }
      else if l.starts_with(b"Command Line: ") { if let (Some(i), Some(a)) = (cur, parse_command_line_display(&l[14..])) { parsed.entry(i).or_insert(a); } }
    }
    for i in start..end {
      t.units += 1;
      let refs: Vec<&str> = samples[i].iter().map(|s| s.as_str()).collect();
      let text = crate::udev_utils::verif_build_service_text(&refs);
      let model = read_execstart_pre_env(&text);
      // expectation before $ expansion: every $ of a pattern still doubled, %I already replaced by the instance name
      let mut exp: Vec<Vec<u8>> = ["/usr/bin/totalmapper", "remap", "--verbose", "--layout-file", "/etc/totalmapper.json", "--only-if-keyboard"].iter().map(|s| s.as_bytes().to_vec()).collect();
      for p in &refs { exp.push(b"--exclude".to_vec()); exp.push(p.replace('$', "$$").into_bytes()); }
      exp.push(b"--dev-file".to_vec()); exp.push(b"/x".to_vec());
      let real = parsed.get(&i);
      let lone_semicolon = refs.iter().any(|p| *p == ";");
      // model with the instance specifier resolved; any other specifier marker means the comparison cannot be made literally
      let model_res: Option<Result<Vec<Vec<u8>>, String>> = match &model {
        Err(e) => Some(Err(e.clone())),
        Ok(a) => { let joined: Vec<Vec<u8>> = a.iter().map(|w| { let s = String::from_utf8_lossy(w).replace(&format!("{}SPECI{}", MARK, MARK), "x").replace(&format!("{}SPECi{}", MARK, MARK), "x"); if s.contains(MARK) { vec![0xff, 0xfe] } else { replace_bytes(w) } }).collect();
          if joined.iter().any(|w| w == &vec![0xff, 0xfe]) { None } else { Some(Ok(joined)) } }
      };
      match (real, model_res) {
        (_, None) => { t.skipped_specifier += 1; }
        (None, Some(Err(_))) => { t.agree += 1; if !lone_semicolon { t.findings.push(("exec-line-invalid", format!("the installed systemd and the reference reader both reject the line for {:?}", refs), samples[i].clone())); } }
        (None, Some(Ok(m))) => { if lone_semicolon { t.agree += 1; } else { t.model_errors.push(format!("the installed systemd rejects the unit for {:?} but the reference reader reads {}", refs, show(&m))); } }
        (Some(r), Some(Err(e))) => t.model_errors.push(format!("the installed systemd reads {} for {:?} but the reference reader rejects the line ({})", show(r), refs, e)),
        (Some(r), Some(Ok(m))) => {
          if *r != m { t.model_errors.push(format!("for {:?} the installed systemd reads {} but the reference reader reads {}", refs, show(r), show(&m))); }
          else { t.agree += 1; if *r != exp { t.findings.push(("pattern-changed", format!("the installed systemd reads {} where {} is expected (patterns {:?})", show(r), show(&exp), refs), samples[i].clone())); } }
        }
      }
    }
    start = end;
  }
  let _ = std::fs::remove_dir_all(&dir);
  let _ = ctx;
  // a systemd-analyze that dumps nothing at all (other version, no access to the manager's directories) is "unavailable",
  // not a disagreement
  if t.agree == 0 { return None; }
  Some(t)
}

fn replace_bytes(w: &[u8]) -> Vec<u8> {
  // resolve the %I / %i markers on the byte level
  let mark_i = format!("{}SPECI{}", MARK, MARK).into_bytes();
  let mark_i2 = format!("{}SPECi{}", MARK, MARK).into_bytes();
  let mut out = vec![]; let mut i = 0;
  while i < w.len() {
    if w[i..].starts_with(&mark_i) { out.push(b'x'); i += mark_i.len(); }
    else if w[i..].starts_with(&mark_i2) { out.push(b'x'); i += mark_i2.len(); }
    else { out.push(w[i]); i += 1; }
  }
  out
}

fn expected_argv(pats: &[&str]) -> Vec<Vec<u8>> {
  let mut exp: Vec<Vec<u8>> = ["/usr/bin/totalmapper", "remap", "--verbose", "--layout-file", "/etc/totalmapper.json", "--only-if-keyboard"].iter().map(|s| s.as_bytes().to_vec()).collect();
  for p in pats { exp.push(b"--exclude".to_vec()); exp.push(p.as_bytes().to_vec()); }
  exp.push(b"--dev-file".to_vec());
  exp.push(format!("/{}SPECI{}", MARK, MARK).into_bytes());
  exp
}

fn show(argv: &[Vec<u8>]) -> String { format!("{:?}", argv.iter().map(|w| String::from_utf8(w.clone()).unwrap_or_else(|_| format!("<bytes {}>", w.iter().map(|b| format!("{:02x}", b)).collect::<String>()))).collect::<Vec<_>>()) }

/// Ok(escaping_was_needed) or Err((clause, detail))
fn check_patterns(pats: &[&str]) -> Result<bool, (&'static str, String)> {
  let text = crate::udev_utils::verif_build_service_text(pats);
  check_unit_text(pats, &text)
}

/// the oracle proper, on a unit text wherever it comes from (the hooked build_service_text, or the file the real
/// binary's add_systemd_service wrote in the end-to-end tier)
fn check_unit_text(pats: &[&str], text: &str) -> Result<bool, (&'static str, String)> {
  let line = text.split('\n').find(|l| l.starts_with("ExecStart=")).unwrap_or("").to_string();
  let argv = read_execstart(text).map_err(|e| ("exec-line-invalid", format!("systemd would reject the line ({}): {}", e, truncate(&line, 600))))?;
  let exp = expected_argv(pats);
  if argv != exp {
    // The statement fixes that every pattern comes back as `--exclude <pattern>`, byte for byte, and that the surrounding
    // arguments stay intact.  It does not fix the ORDER of the --exclude pairs nor whether a pattern the user gave twice
    // is written twice: any arrangement of well-formed pairs that carries exactly the given set of patterns is accepted
    // (DESIGN 7.10); everything else is judged against the vector in the order given.
    let frame = expected_argv(&[]);
    let n = argv.len();
    let structured = n >= frame.len() && (n - frame.len()) % 2 == 0 && argv[..6] == frame[..6] && argv[n - 2..] == frame[6..] && (6..n - 2).step_by(2).all(|i| argv[i] == b"--exclude");
    if structured {
      let mut got: Vec<&[u8]> = (7..n - 2).step_by(2).map(|i| argv[i].as_slice()).collect(); got.sort(); got.dedup();
      let mut want: Vec<&[u8]> = pats.iter().map(|p| p.as_bytes()).collect(); want.sort(); want.dedup();
      if got == want { return Ok(true); }
    }
    let clause = if argv.len() == exp.len() && argv.iter().zip(exp.iter()).enumerate().all(|(i, (a, b))| a == b || (i >= 7 && i < 6 + 2 * pats.len() && (i - 6) % 2 == 1)) { "pattern-changed" } else { "argument-vector-damaged" };
    let at = argv.iter().zip(exp.iter()).position(|(a, b)| a != b).unwrap_or(argv.len().min(exp.len()));
    let one = |v: &[Vec<u8>]| v.get(at).map(|w| show(std::slice::from_ref(w))).unwrap_or_else(|| "<nothing>".into());
    return Err((clause, format!("first difference at argument {}: read back {} expected {}; whole vector read back {} expected {}; line: {}", at, one(&argv), one(&exp), truncate(&show(&argv), 600), truncate(&show(&exp), 600), truncate(&line, 600))));
  }
  let naive = format!("--only-if-keyboard {} --dev-file", pats.iter().map(|p| format!("--exclude {}", p)).collect::<Vec<_>>().join(" "));
  Ok(!line.contains(&naive))
}

/// Lists in which some entries are empty.  The property speaks about the non-empty patterns only, and an empty entry
/// is allowed to do whatever it does to its own `--exclude`; what must still hold is that every NON-empty pattern of the
/// list comes back, in order, as the word after an `--exclude` word, and that the surrounding arguments are intact.
fn check_sparse_list(pats: &[&str]) -> Result<bool, (&'static str, String)> {
  let text = crate::udev_utils::verif_build_service_text(pats);
  let line = text.split('\n').find(|l| l.starts_with("ExecStart=")).unwrap_or("").to_string();
  let argv = read_execstart(&text).map_err(|e| ("exec-line-invalid", format!("systemd would reject the line ({}): {}", e, line)))?;
  let frame = expected_argv(&[]);
  let n = argv.len();
  if n < frame.len() || argv[..6] != frame[..6] || argv[n - 2..] != frame[6..] {
    return Err(("argument-vector-damaged", format!("list with empty entries {:?}: surrounding arguments changed; read back {}; line: {}", pats, show(&argv), line)));
  }
  let mut i = 6;
  for p in pats.iter().filter(|p| !p.is_empty()) {
    let mut found = false;
    while i + 1 < n - 2 { if argv[i] == b"--exclude" && argv[i + 1] == p.as_bytes() { found = true; i += 2; break; } i += 1; }
    if !found { return Err(("non-empty-pattern-lost-next-to-empty-one", format!("list {:?}: the non-empty pattern {:?} does not come back as `--exclude <pattern>`; read back {}; line: {}", pats, p, show(&argv), line))); }
  }
  Ok(true)
}

#[derive(Default)]
struct Acc {
  evaluations: u64,
  nontrivial: u64,
  fails: BTreeMap<(&'static str, String), (u64, Vec<String>, String)>, // (clause, class) -> count, first patterns, detail
}

fn class_of(pats: &[&str]) -> String {
  // names the characters of the failing input that need escaping at all: groups failures for the report
  let mut tags: Vec<&str> = vec![];
  for p in pats { for c in p.chars() {
    let t = match c { '\'' => "apostrophe", '%' => "percent", '$' => "dollar", '\\' => "backslash", '"' => "double-quote", ' ' | '\t' | '\n' | '\r' => "whitespace",
      c if c.is_control() => if (c as u32) < 128 { "ascii-control" } else if (c as u32) < 0x100 { "c1-control" } else { "other-control" }, _ => "" };
    if !t.is_empty() && !tags.contains(&t) { tags.push(t); }
  } }
  if tags.is_empty() { "plain".into() } else { tags.join("+") }
}

impl Acc {
  fn run(&mut self, pats: &[&str]) {
    self.evaluations += 1;
    match check_patterns(pats) {
      Ok(nt) => { if nt { self.nontrivial += 1; } }
      Err((clause, detail)) => {
        self.nontrivial += 1;
        let e = self.fails.entry((clause, class_of(pats))).or_insert((0, vec![], detail));
        e.0 += 1;
        if e.1.is_empty() { e.1 = pats.iter().map(|s| s.to_string()).collect(); }
      }
    }
  }
  fn run_sparse(&mut self, pats: &[&str]) {
    self.evaluations += 1;
    match check_sparse_list(pats) {
      Ok(_) => { self.nontrivial += 1; }
      Err((clause, detail)) => {
        self.nontrivial += 1;
        let e = self.fails.entry((clause, class_of(pats))).or_insert((0, vec![], detail));
        e.0 += 1;
        if e.1.is_empty() { e.1 = pats.iter().map(|s| s.to_string()).collect(); }
      }
    }
  }
  fn merge(&mut self, o: Acc) {
    self.evaluations += o.evaluations; self.nontrivial += o.nontrivial;
    for (k, v) in o.fails {
      match self.fails.get_mut(&k) {
        None => { self.fails.insert(k, v); }
        Some(e) => { let c = e.0 + v.0; if v.1 < e.1 { *e = v; } e.0 = c; }
      }
    }
  }
}

pub const SYNTAX_ALPHABET: [char; 25] = [' ', '\t', '\n', '\\', '\'', '"', '%', '$', '{', '}', '*', '?', ';', '#', '/', '-', 'a', '1', 'n', 'i', 'I', '\x1b', '\x7f', '\u{85}', 'é'];

pub fn run(ctx: &Ctx) -> Outcome {
  let q = ctx.tier == Tier::Quick;
  // (i) every Unicode scalar value except NUL, alone and embedded
  let chunks = 256usize;
  let per = (0x110000u32 + chunks as u32 - 1) / chunks as u32;
  let mut total = par_fold(chunks, ctx.threads, Acc::default, |ci, acc: &mut Acc| {
    let lo = (ci as u32 * per).max(1);
    let hi = ((ci as u32 + 1) * per).min(0x110000);
    for u in lo..hi {
      if let Some(c) = char::from_u32(u) {
        let s = c.to_string(); acc.run(&[&s]);
        let s2 = format!("a{}b", c); acc.run(&[&s2]);
      }
    }
  }, |a, b| a.merge(b));
  let scalars = total.evaluations / 2;
  // (ii) every string up to the length bound over the syntax-relevant alphabet (plus an astral character)
  let mut alpha: Vec<char> = SYNTAX_ALPHABET.to_vec();
  alpha.push('\u{1F600}');
  let maxlen = if q { 3 } else { 4 };
  let mut strings: Vec<String> = vec![];
  let mut level: Vec<String> = vec![String::new()];
  for _ in 0..maxlen {
    let mut next = vec![];
    for s in &level { for c in &alpha { let mut t = s.clone(); t.push(*c); next.push(t); } }
    strings.extend(next.iter().cloned());
    level = next;
  }
  let before = total.evaluations;
  let a2 = par_fold(strings.len(), ctx.threads, Acc::default, |i, acc: &mut Acc| { acc.run(&[&strings[i]]); }, |a, b| a.merge(b));
  total.merge(a2);
  let n_strings = total.evaluations - before;
  // (iii) every list of 1..=3 patterns over a sub-alphabet of one- and two-character patterns
  let sub: Vec<String> = { let cs = [' ', '\\', '\'', '"', '%', '$', '*', 'a', 'i', '\x1b'];
    let mut v: Vec<String> = cs.iter().map(|c| c.to_string()).collect();
    if !q { for a in cs.iter() { for b in ['a', ' ', '%', '\\'] { v.push(format!("{}{}", a, b)); } } }
    v };
  let before = total.evaluations;
  let nl = sub.len();
  let lists_total = nl + nl * nl + nl * nl * nl;
  let a3 = par_fold(lists_total, ctx.threads, Acc::default, |i, acc: &mut Acc| {
    let (len, mut j) = if i < nl { (1, i) } else if i < nl + nl * nl { (2, i - nl) } else { (3, i - nl - nl * nl) };
    let mut l: Vec<&str> = vec![];
    for _ in 0..len { l.push(&sub[j % nl]); j /= nl; }
    acc.run(&l);
  }, |a, b| a.merge(b));
  total.merge(a3);
  // (iii-b) lists of 2..=4 entries over the same short patterns and the EMPTY string, at least one of each kind
  {
    let mut ext: Vec<&str> = vec![""]; for x in sub.iter().take(10) { ext.push(x); }
    let ne = ext.len();
    for len in 2..=4usize { for idx in 0..ne.pow(len as u32) {
      let mut j = idx; let mut l: Vec<&str> = vec![];
      for _ in 0..len { l.push(ext[j % ne]); j /= ne; }
      if l.iter().any(|p| p.is_empty()) && l.iter().any(|p| !p.is_empty()) { total.run_sparse(&l); }
    } }
  }
  let n_lists = total.evaluations - before;
  // (iv) sizes: every alphabet character repeated n times, and lists of n patterns, n around every power of two up to 257
  let sizes = [1usize, 2, 3, 4, 7, 8, 9, 15, 16, 17, 31, 32, 33, 63, 64, 65, 127, 128, 129, 255, 256, 257];
  let before = total.evaluations;
  for c in &alpha { for n in &sizes { let s: String = std::iter::repeat(*c).take(*n).collect(); total.run(&[&s]); let t = format!("{}a{}", s, c); total.run(&[&t]); } }
  let mut list_sizes: Vec<usize> = sizes.to_vec(); for n in (100..=260).step_by(7) { list_sizes.push(n); }
  for n in &list_sizes {
    // every rotation of the alphabet: each character leads a pattern at many different offsets of the line
    for rot in 0..alpha.len() { let l: Vec<String> = (0..*n).map(|i| format!("{}{} Footswitch", alpha[(i + rot) % alpha.len()], i)).collect(); let r: Vec<&str> = l.iter().map(|s| s.as_str()).collect(); if *n >= 100 { total.run(&r); } }
    let many: Vec<String> = (0..*n).map(|i| format!("{}{}", alpha[i % alpha.len()], i)).collect();
    let refs: Vec<&str> = many.iter().map(|s| s.as_str()).collect();
    total.run(&refs);
    let same: Vec<&str> = std::iter::repeat("*Mouse*").take(*n).collect();
    total.run(&same);
  }
  let n_sizes = total.evaluations - before;
  // (v) patterns made of the unit template's own fragments (what a textual post-processing of the whole line could confuse)
  let frags = ["/%I", "%I", "/%i", "--dev-file", "--dev-file /%I", "--exclude", "--only-if-keyboard", "--layout-file /etc/totalmapper.json", "ExecStart=", "/usr/bin/totalmapper", "remap", "[Service]", "\n[Install]\nWantedBy=x", "%%", "$$", "\\s", "\\x2a", "/%%I", "x/%Iy", "Battery 50/%Idle"];
  let before = total.evaluations;
  for a in frags.iter() { total.run(&[a]); for b in frags.iter() { let ab = format!("{}{}", a, b); total.run(&[&ab]); total.run(&[a, b]); let asb = format!("{} {}", a, b); total.run(&[&asb]); } }
  let n_frags = total.evaluations - before;
  // the no-exclude unit must read back too
  total.run(&[]);

  // conformance of the reference reader with the installed systemd, on a sample
  let mut samples: Vec<Vec<String>> = vec![];
  for u in 1u32..=0xa0 { if let Some(c) = char::from_u32(u) { samples.push(vec![c.to_string()]); } }
  for c in ['\u{e9}', '\u{20ac}', '\u{1F600}', '\u{2028}', '\u{feff}'] { samples.push(vec![c.to_string()]); samples.push(vec![format!("a{}b", c)]); }
  let ascii_alpha: Vec<char> = alpha.iter().cloned().filter(|c| c.is_ascii()).collect();
  for a in &ascii_alpha { for b in &ascii_alpha { samples.push(vec![format!("{}{}", a, b)]); } }
  for a in &ascii_alpha { samples.push(vec![format!("x{}", a), format!("{}y", a), a.to_string()]); }
  samples.push((0..130).map(|i| format!("{}{} Footswitch", alpha[i % alpha.len()], i)).collect());
  let real = real_systemd_tier(ctx, &samples);

  let inst = installer_tier(ctx, &alpha);
  let mut o = Outcome::new("exploration");
  match &inst {
    None => { o.cov("installer_end_to_end_tier", "unavailable"); }
    Some(t) => {
      o.cov("installer_end_to_end_tier", "ran");
      o.cov("installer_invocations_of_the_real_binary", t.invocations);
      o.cov("installer_patterns_through_the_real_binary", t.patterns);
      total.evaluations += t.patterns; total.nontrivial += t.patterns;
      if let Some(e) = &t.machinery { o.machinery_error = Some(format!("installer end-to-end tier: {}", e)); }
      for (clause, detail, pats) in &t.fails {
        let refs: Vec<&str> = pats.iter().map(|s| s.as_str()).collect();
        let e = total.fails.entry((clause, format!("real binary; {}", class_of(&refs)))).or_insert((0, pats.clone(), detail.clone()));
        e.0 += 1;
      }
    }
  }
  match &real {
    None => { o.cov("installed_systemd_tier", "unavailable"); }
    Some(t) => {
      o.cov("installed_systemd_tier", "ran");
      o.cov("installed_systemd_units_parsed", t.units);
      o.cov("installed_systemd_agrees_with_reference_reader", t.agree);
      o.cov("installed_systemd_units_skipped_specifier_expansion", t.skipped_specifier);
      total.evaluations += t.units;
      if let Some(e) = t.model_errors.first() { o.machinery_error = Some(format!("the reference systemd reader disagrees with the installed systemd ({} cases), e.g. {}", t.model_errors.len(), e)); }
      for (clause, detail, pats) in &t.findings {
        let refs: Vec<&str> = pats.iter().map(|s| s.as_str()).collect();
        let e = total.fails.entry((clause, format!("installed systemd; {}", class_of(&refs)))).or_insert((0, pats.clone(), detail.clone()));
        e.0 += 1;
      }
    }
  }
  o.cov("evaluations", total.evaluations);
  o.cov("distinct_nontrivial", total.nontrivial);
  o.cov("unicode_scalars_covered", scalars);
  o.cov("strings_over_syntax_alphabet", n_strings);
  o.cov("pattern_lists", n_lists);
  o.cov("long_patterns_and_long_lists", n_sizes);
  o.cov("template_fragment_patterns", n_frags);
  o.cov("exhaustive", true);
  o.cov("rule", format!("(i) every Unicode scalar value except NUL as a one-character pattern and embedded as a<c>b; (ii) every string of length 1..={} over the {}-character syntax alphabet; (iii) every list of 1..=3 patterns over {} short patterns, and every list of 2..=4 entries over ten of them and the empty string with at least one empty and one non-empty entry (oracle for those: every non-empty pattern comes back in order as the word after an `--exclude`, surrounding arguments intact); (iv) every alphabet character repeated n times and lists of n patterns for n around every power of two up to 257; (v) 20 fragments of the unit template itself, alone, concatenated and paired; plus the empty list. Each input goes through the real build_service_text and the ExecStart line is read back by the reference reader; (vi) end-to-end, when `unshare -m` is available: the real binary (guard off) runs `add_systemd_service --exclude=<p>...` in a private mount namespace and the unit FILE it writes is read back with the same oracle - every alphabet character alone and every pair, every Unicode scalar value (1000 patterns per invocation; quick: 4000), long lists in rotations of the alphabet, 23 template/option-like fragments; distinct_nontrivial = inputs (all distinct by construction) whose pattern text had to be changed by the escaper, i.e. the raw pattern does not appear verbatim in the line.", maxlen, alpha.len(), sub.len()));
  o.cov("samples", json!([
    {"patterns": ["*Mouse*"], "exec_start": crate::udev_utils::verif_build_service_text(&["*Mouse*"]).split('\n').find(|l| l.starts_with("ExecStart=")).unwrap_or("")},
    {"patterns": ["it's 100% $HOME"], "exec_start": crate::udev_utils::verif_build_service_text(&["it's 100% $HOME"]).split('\n').find(|l| l.starts_with("ExecStart=")).unwrap_or("")},
    {"patterns": ["a\u{1b}b", "\u{85}"], "exec_start": crate::udev_utils::verif_build_service_text(&["a\u{1b}b", "\u{85}"]).split('\n').find(|l| l.starts_with("ExecStart=")).unwrap_or("")}
  ]));
  o.assumptions = vec![
    "the reference reader is this harness's reading of systemd's documented rules (split on unquoted whitespace, quotes, C escapes with unknown escapes invalid, then % specifiers, then $ variables); the standalone-`;` rule of ExecStart= is not among the rules the property lists and is not part of the oracle".into(),
    "NUL cannot occur in a command-line argument and is excluded".into(),
    "when systemd-analyze is installed, the reference reader's pre-$ stage is compared with the real parser's dump on a sample of ~700 pattern lists every run; a disagreement is a machinery failure".into(),
  ];
  for ((clause, class), (count, pats, detail)) in &total.fails {
    let art = json!({"engine": "C17", "patterns": pats, "code_points": pats.iter().map(|p| p.chars().map(|c| format!("U+{:04X}", c as u32)).collect::<Vec<_>>()).collect::<Vec<_>>(), "class": class});
    o.violations.push(Violation { property: "C17".into(), clause: format!("{} ({})", clause, class), signature: None, description: detail.clone(), artefact: art, count: *count });
  }
  o
}

/// End-to-end tier (DESIGN 5.5): the real binary's `add_systemd_service --exclude=<p> ...` in a private mount namespace;
/// the unit FILE it leaves in /etc/systemd/system is read back with the same oracle.  Reaches main.rs's collection of the
/// --exclude values and write_systemd_service around build_service_text.
pub struct InstallTier { pub invocations: u64, pub patterns: u64, pub fails: Vec<(&'static str, String, Vec<String>)>, pub machinery: Option<String> }

pub fn installer_tier(ctx: &Ctx, alpha: &[char]) -> Option<InstallTier> {
  use crate::e2e::*;
  if !available() { return None; }
  let q = ctx.tier == Tier::Quick;
  let mut lists: Vec<Vec<String>> = vec![vec![]];
  // every alphabet character alone (one invocation each), every pair (one invocation per first character)
  for a in alpha { lists.push(vec![a.to_string()]); }
  for a in alpha { lists.push(alpha.iter().map(|b| format!("{}{}", a, b)).collect()); }
  // every Unicode scalar value except NUL as a one-character pattern, 1000 (quick: 4000) per invocation, in code-point order
  let per = if q { 4000 } else { 1000 };
  let mut cur: Vec<String> = vec![];
  for u in 1u32..0x110000 { if let Some(c) = char::from_u32(u) { cur.push(c.to_string()); if cur.len() == per { lists.push(std::mem::take(&mut cur)); } } }
  if !cur.is_empty() { lists.push(cur); }
  // long lists in every rotation of the alphabet (line lengths around the wrap limits), repeated patterns, template fragments
  for n in [1usize, 2, 3, 7, 8, 9, 63, 64, 65, 100, 128, 129, 200, 256, 257] {
    for rot in (0..alpha.len()).step_by(if q { 5 } else { 1 }) { lists.push((0..n).map(|i| format!("{}{} Footswitch", alpha[(i + rot) % alpha.len()], i)).collect()); }
    lists.push(std::iter::repeat("*Mouse*".to_string()).take(n).collect());
  }
  let frags = ["/%I", "%I", "--dev-file", "--dev-file /%I", "--exclude", "--exclude=x", "-x", "--", "--only-if-keyboard", "ExecStart=", "[Service]", "\n[Install]\nWantedBy=x", "%%", "$$", "a$$", "\\s", "x/%Iy", "=", "a=b", "a,b", "a b", " lead", "trail "];
  for f in frags.iter() { lists.push(vec![f.to_string()]); }
  lists.push(frags.iter().map(|s| s.to_string()).collect());
  let cases: Vec<Case> = lists.iter().map(|l| Case { layout: LayoutArg::Default("caps-for-movement".into()), excludes: l.clone(), install: true }).collect();
  let mut t = InstallTier { invocations: cases.len() as u64, patterns: lists.iter().map(|l| l.len() as u64).sum(), fails: vec![], machinery: None };
  let obs = match run_cases(&cases, ctx.threads) { Ok(o) => o, Err(e) => { if e.starts_with("unavailable") { return None; } t.machinery = Some(e); return Some(t); } };
  for (l, o) in lists.iter().zip(obs.iter()) {
    let refs: Vec<&str> = l.iter().map(|s| s.as_str()).collect();
    let unit = match &o.unit { Some(u) => u, None => {
      // no unit at all: the installer stopped before writing it.  A crash is reported; anything else is this tier's set-up
      if o.signal.is_some() || o.status == Some(101) { t.fails.push(("installer-crashes", format!("add_systemd_service with {} --exclude values died (status {:?}, signal {:?}): {}", l.len(), o.status, o.signal, truncate(&o.stderr, 400)), l.iter().take(8).cloned().collect())); }
      else if t.machinery.is_none() { t.machinery = Some(format!("the installer wrote no unit file in the private namespace (status {:?}): {} {}", o.status, truncate(&o.stdout, 300), truncate(&o.stderr, 300))); }
      continue; } };
    let text = match std::str::from_utf8(unit) { Ok(s) => s.to_string(), Err(_) => { t.fails.push(("unit-file-not-utf8", "the unit file written by the installer is not valid UTF-8".into(), l.iter().take(8).cloned().collect())); continue; } };
    if let Err((clause, detail)) = check_unit_text(&refs, &text) {
      if !t.fails.iter().any(|f| f.0 == clause) || t.fails.len() < 3 { t.fails.push((clause, format!("unit file written by the real binary: {}", detail), l.iter().take(8).cloned().collect())); }
    }
  }
  Some(t)
}

pub fn replay_artefact(v: &Value) -> i32 {
  let pats: Vec<String> = v["patterns"].as_array().map(|a| a.iter().map(|x| x.as_str().unwrap_or("").to_string()).collect()).unwrap_or_default();
  let refs: Vec<&str> = pats.iter().map(|s| s.as_str()).collect();
  let text = crate::udev_utils::verif_build_service_text(&refs);
  println!("patterns {:?}", pats);
  println!("{}", text.split('\n').find(|l| l.starts_with("ExecStart=")).unwrap_or(""));
  match read_execstart(&text) { Ok(a) => println!("reference reader: {}", show(&a)), Err(e) => println!("reference reader rejects the line: {}", e) }
  println!("expected:         {}", show(&expected_argv(&refs)));
  0
}
