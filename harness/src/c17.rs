// C17 — exclude patterns survive the unit file (DESIGN §5.2, §6-C17).
//
// Reference reader of an `ExecStart=` value after systemd.service(5)/systemd.syntax(7):
// word splitting on unquoted whitespace, quote removal, C-style unescaping, then `%`
// specifier expansion and `$` variable expansion per word.  Independent of udev_utils.rs.
use crate::common::*;
use serde_json::{json, Value};
use std::collections::BTreeMap;

/// specifier letters systemd expands in unit files (systemd.unit(5)); expansion is
/// modelled as a marker that can never equal user text
const SPECIFIERS: &str = "aAbBCdDEfgGhHiIjJlLmMnNopPqrsStTuUvVwWyY";
const MARK: char = '\u{1}';

/// A word is a byte string: `\xHH` and octal escapes produce one raw byte, `\u`/`\U` the UTF-8
/// encoding of the code point (systemd's cunescape), everything else its own UTF-8 bytes.
fn push_char(w: &mut Vec<u8>, c: char) { let mut b = [0u8; 4]; w.extend_from_slice(c.encode_utf8(&mut b).as_bytes()); }

fn split_words(line: &str) -> Result<Vec<Vec<u8>>, String> {
  let cs: Vec<char> = line.chars().collect();
  let ws = |c: char| c == ' ' || c == '\t' || c == '\n' || c == '\r';
  let mut i = 0;
  let mut words = vec![];
  loop {
    while i < cs.len() && ws(cs[i]) { i += 1; }
    if i >= cs.len() { break; }
    let mut w: Vec<u8> = vec![];
    let mut quote: Option<char> = None;
    loop {
      if i >= cs.len() { if quote.is_some() { return Err("unterminated quote".into()); } break; }
      let c = cs[i];
      if let Some(q) = quote {
        if c == q { quote = None; i += 1; continue; }
      } else {
        if c == '\'' || c == '"' { quote = Some(c); i += 1; continue; }
        if ws(c) { break; }
      }
      if c == '\\' {
        i += 1;
        if i >= cs.len() { return Err("trailing backslash".into()); }
        let e = cs[i];
        let simple = match e { 'a' => Some(0x07u8), 'b' => Some(0x08), 'f' => Some(0x0c), 'n' => Some(b'\n'), 'r' => Some(b'\r'), 't' => Some(b'\t'), 'v' => Some(0x0b), '\\' => Some(b'\\'), '"' => Some(b'"'), '\'' => Some(b'\''), 's' => Some(b' '), _ => None };
        if let Some(b) = simple { w.push(b); i += 1; continue; }
        let take_hex = |n: usize| -> Option<u32> { let mut v = 0u32; for j in 1..=n { v = v * 16 + cs.get(i + j)?.to_digit(16)?; } Some(v) };
        match e {
          'x' => { let v = take_hex(2).ok_or("bad \\x escape")?; if v == 0 { return Err("\\x00".into()); } w.push(v as u8); i += 3; }
          'u' => { let v = take_hex(4).ok_or("bad \\u escape")?; if v == 0 { return Err("\\u0000".into()); } push_char(&mut w, char::from_u32(v).ok_or("bad unichar")?); i += 5; }
          'U' => { let v = take_hex(8).ok_or("bad \\U escape")?; if v == 0 { return Err("\\U00000000".into()); } push_char(&mut w, char::from_u32(v).ok_or("bad unichar")?); i += 9; }
          '0'..='7' => {
            let mut v = 0u32;
            for j in 0..3 { v = v * 8 + cs.get(i + j).ok_or("bad octal escape")?.to_digit(8).ok_or("bad octal escape")?; }
            if v == 0 || v > 255 { return Err("bad octal escape".into()); }
            w.push(v as u8); i += 3;
          }
          _ => return Err(format!("unknown escape \\{}", e)),
        }
        continue;
      }
      push_char(&mut w, c);
      i += 1;
    }
    words.push(w);
  }
  Ok(words)
}

const MARKB: u8 = 1;

fn expand_specifiers(w: &[u8]) -> Vec<u8> {
  let mut r = vec![];
  let mut i = 0;
  while i < w.len() {
    if w[i] == b'%' && i + 1 < w.len() {
      let n = w[i + 1];
      if n == b'%' { r.push(b'%'); i += 2; continue; }
      if SPECIFIERS.as_bytes().contains(&n) { r.push(MARKB); r.extend_from_slice(b"SPEC"); r.push(n); r.push(MARKB); i += 2; continue; }
      r.push(b'%'); r.push(n); i += 2; continue;
    }
    r.push(w[i]);
    i += 1;
  }
  r
}

fn is_name_char(c: u8) -> bool { c.is_ascii_alphanumeric() || c == b'_' }

fn expand_env(w: &[u8]) -> Vec<Vec<u8>> {
  // a word that is exactly $NAME is replaced by the (split) value of the variable
  if w.len() >= 2 && w[0] == b'$' && w[1] != b'{' && w[1] != b'$' && w[1..].iter().all(|c| is_name_char(*c)) { return vec![vec![MARKB, b'E', b'N', b'V', b'W', MARKB]]; }
  let mut r = vec![];
  let mut i = 0;
  while i < w.len() {
    if w[i] == b'$' && i + 1 < w.len() {
      let n = w[i + 1];
      if n == b'$' { r.push(b'$'); i += 2; continue; }
      if n == b'{' {
        if let Some(j) = w[i + 2..].iter().position(|c| *c == b'}') { r.push(MARKB); r.extend_from_slice(b"ENV"); r.push(MARKB); i = i + 2 + j + 1; continue; }
      } else if is_name_char(n) {
        let mut j = i + 1;
        while j < w.len() && is_name_char(w[j]) { j += 1; }
        r.push(MARKB); r.extend_from_slice(b"ENV"); r.push(MARKB); i = j; continue;
      }
    }
    r.push(w[i]);
    i += 1;
  }
  vec![r]
}

pub fn read_execstart(unit_text: &str) -> Result<Vec<Vec<u8>>, String> {
  // unit-file line structure (systemd.syntax(7)): a trailing backslash continues the line (it is replaced by a space),
  // and a physical line starting with # or ; is a comment that is ignored even inside a continued line
  let phys: Vec<&str> = unit_text.split('\n').collect();
  let mut i = 0;
  let mut logical: Option<String> = None;
  let mut after: Vec<String> = vec![];
  while i < phys.len() {
    let l = phys[i];
    if logical.is_none() {
      if l.starts_with("ExecStart=") {
        let mut cur = l.to_string();
        while cur.ends_with('\\') {
          cur.pop(); cur.push(' ');
          i += 1;
          // comment test after skipping leading whitespace, as systemd's config parser does
          while i < phys.len() && { let t = phys[i].trim_start_matches(|c| c == ' ' || c == '\t'); t.starts_with('#') || t.starts_with(';') } { i += 1; }
          if i >= phys.len() { break; }
          cur.push_str(phys[i]);
        }
        logical = Some(cur);
      }
    } else if !l.is_empty() { after.push(l.to_string()); }
    i += 1;
  }
  let line = logical.ok_or("no ExecStart line")?;
  if !after.is_empty() { return Err(format!("text after the ExecStart line: {:?}", after.iter().take(3).collect::<Vec<_>>())); }
  let words = split_words(&line["ExecStart=".len()..])?;
  let mut out = vec![];
  for w in words { for x in expand_env(&expand_specifiers(&w)) { out.push(x); } }
  Ok(out)
}

fn expected_argv(pats: &[&str]) -> Vec<Vec<u8>> {
  let mut exp: Vec<Vec<u8>> = ["/usr/bin/totalmapper", "remap", "--verbose", "--layout-file", "/etc/totalmapper.json", "--only-if-keyboard"].iter().map(|s| s.as_bytes().to_vec()).collect();
  for p in pats { exp.push(b"--exclude".to_vec()); exp.push(p.as_bytes().to_vec()); }
  exp.push(b"--dev-file".to_vec());
  exp.push(format!("/{}SPECI{}", MARK, MARK).into_bytes());
  exp
}

fn show(argv: &[Vec<u8>]) -> String { format!("{:?}", argv.iter().map(|w| String::from_utf8(w.clone()).unwrap_or_else(|_| format!("<bytes {}>", w.iter().map(|b| format!("{:02x}", b)).collect::<String>()))).collect::<Vec<_>>()) }

/// Ok(escaping_was_needed) or Err((clause, detail))
fn check_patterns(pats: &[&str]) -> Result<bool, (&'static str, String)> {
  let text = crate::udev_utils::verif_build_service_text(pats);
  let line = text.split('\n').find(|l| l.starts_with("ExecStart=")).unwrap_or("").to_string();
  let argv = read_execstart(&text).map_err(|e| ("exec-line-invalid", format!("systemd would reject the line ({}): {}", e, line)))?;
  let exp = expected_argv(pats);
  if argv != exp {
    let clause = if argv.len() == exp.len() && argv.iter().zip(exp.iter()).enumerate().all(|(i, (a, b))| a == b || (i >= 7 && i < 6 + 2 * pats.len() && (i - 6) % 2 == 1)) { "pattern-changed" } else { "argument-vector-damaged" };
    return Err((clause, format!("read back {} expected {}; line: {}", show(&argv), show(&exp), line)));
  }
  let naive = format!("--only-if-keyboard {} --dev-file", pats.iter().map(|p| format!("--exclude {}", p)).collect::<Vec<_>>().join(" "));
  Ok(!line.contains(&naive))
}

#[derive(Default)]
struct Acc {
  evaluations: u64,
  nontrivial: u64,
  fails: BTreeMap<(&'static str, String), (u64, Vec<String>, String)>, // (clause, class) -> count, first patterns, detail
}

fn class_of(pats: &[&str]) -> String {
  // names the characters of the failing input that need escaping at all: groups failures for the report
  let mut tags: Vec<&str> = vec![];
  for p in pats { for c in p.chars() {
    let t = match c { '\'' => "apostrophe", '%' => "percent", '$' => "dollar", '\\' => "backslash", '"' => "double-quote", ' ' | '\t' | '\n' | '\r' => "whitespace",
      c if c.is_control() => if (c as u32) < 128 { "ascii-control" } else if (c as u32) < 0x100 { "c1-control" } else { "other-control" }, _ => "" };
    if !t.is_empty() && !tags.contains(&t) { tags.push(t); }
  } }
  if tags.is_empty() { "plain".into() } else { tags.join("+") }
}

impl Acc {
  fn run(&mut self, pats: &[&str]) {
    self.evaluations += 1;
    match check_patterns(pats) {
      Ok(nt) => { if nt { self.nontrivial += 1; } }
      Err((clause, detail)) => {
        self.nontrivial += 1;
        let e = self.fails.entry((clause, class_of(pats))).or_insert((0, vec![], detail));
        e.0 += 1;
        if e.1.is_empty() { e.1 = pats.iter().map(|s| s.to_string()).collect(); }
      }
    }
  }
  fn merge(&mut self, o: Acc) {
    self.evaluations += o.evaluations; self.nontrivial += o.nontrivial;
    for (k, v) in o.fails {
      match self.fails.get_mut(&k) {
        None => { self.fails.insert(k, v); }
        Some(e) => { let c = e.0 + v.0; if v.1 < e.1 { *e = v; } e.0 = c; }
      }
    }
  }
}

pub const SYNTAX_ALPHABET: [char; 22] = [' ', '\t', '\n', '\\', '\'', '"', '%', '$', '{', '}', '*', '?', ';', '#', 'a', '1', 'n', 'i', '\x1b', '\x7f', '\u{85}', 'é'];

pub fn run(ctx: &Ctx) -> Outcome {
  let q = ctx.tier == Tier::Quick;
  // (i) every Unicode scalar value except NUL, alone and embedded
  let chunks = 256usize;
  let per = (0x110000u32 + chunks as u32 - 1) / chunks as u32;
  let mut total = par_fold(chunks, ctx.threads, Acc::default, |ci, acc: &mut Acc| {
    let lo = (ci as u32 * per).max(1);
    let hi = ((ci as u32 + 1) * per).min(0x110000);
    for u in lo..hi {
      if let Some(c) = char::from_u32(u) {
        let s = c.to_string(); acc.run(&[&s]);
        let s2 = format!("a{}b", c); acc.run(&[&s2]);
      }
    }
  }, |a, b| a.merge(b));
  let scalars = total.evaluations / 2;
  // (ii) every string up to the length bound over the syntax-relevant alphabet (plus an astral character)
  let mut alpha: Vec<char> = SYNTAX_ALPHABET.to_vec();
  alpha.push('\u{1F600}');
  let maxlen = if q { 3 } else { 4 };
  let mut strings: Vec<String> = vec![];
  let mut level: Vec<String> = vec![String::new()];
  for _ in 0..maxlen {
    let mut next = vec![];
    for s in &level { for c in &alpha { let mut t = s.clone(); t.push(*c); next.push(t); } }
    strings.extend(next.iter().cloned());
    level = next;
  }
  let before = total.evaluations;
  let a2 = par_fold(strings.len(), ctx.threads, Acc::default, |i, acc: &mut Acc| { acc.run(&[&strings[i]]); }, |a, b| a.merge(b));
  total.merge(a2);
  let n_strings = total.evaluations - before;
  // (iii) every list of 1..=3 patterns over a sub-alphabet of one- and two-character patterns
  let sub: Vec<String> = { let cs = [' ', '\\', '\'', '"', '%', '$', '*', 'a', 'i', '\x1b'];
    let mut v: Vec<String> = cs.iter().map(|c| c.to_string()).collect();
    if !q { for a in cs.iter() { for b in ['a', ' ', '%', '\\'] { v.push(format!("{}{}", a, b)); } } }
    v };
  let before = total.evaluations;
  let nl = sub.len();
  let lists_total = nl + nl * nl + nl * nl * nl;
  let a3 = par_fold(lists_total, ctx.threads, Acc::default, |i, acc: &mut Acc| {
    let (len, mut j) = if i < nl { (1, i) } else if i < nl + nl * nl { (2, i - nl) } else { (3, i - nl - nl * nl) };
    let mut l: Vec<&str> = vec![];
    for _ in 0..len { l.push(&sub[j % nl]); j /= nl; }
    acc.run(&l);
  }, |a, b| a.merge(b));
  total.merge(a3);
  let n_lists = total.evaluations - before;
  // (iv) sizes: every alphabet character repeated n times, and lists of n patterns, n around every power of two up to 257
  let sizes = [1usize, 2, 3, 4, 7, 8, 9, 15, 16, 17, 31, 32, 33, 63, 64, 65, 127, 128, 129, 255, 256, 257];
  let before = total.evaluations;
  for c in &alpha { for n in &sizes { let s: String = std::iter::repeat(*c).take(*n).collect(); total.run(&[&s]); let t = format!("{}a{}", s, c); total.run(&[&t]); } }
  let mut list_sizes: Vec<usize> = sizes.to_vec(); for n in (100..=260).step_by(7) { list_sizes.push(n); }
  for n in &list_sizes {
    // every rotation of the alphabet: each character leads a pattern at many different offsets of the line
    for rot in 0..alpha.len() { let l: Vec<String> = (0..*n).map(|i| format!("{}{} Footswitch", alpha[(i + rot) % alpha.len()], i)).collect(); let r: Vec<&str> = l.iter().map(|s| s.as_str()).collect(); if *n >= 100 { total.run(&r); } }
    let many: Vec<String> = (0..*n).map(|i| format!("{}{}", alpha[i % alpha.len()], i)).collect();
    let refs: Vec<&str> = many.iter().map(|s| s.as_str()).collect();
    total.run(&refs);
    let same: Vec<&str> = std::iter::repeat("*Mouse*").take(*n).collect();
    total.run(&same);
  }
  let n_sizes = total.evaluations - before;
  // the no-exclude unit must read back too
  total.run(&[]);

  let mut o = Outcome::new("exploration");
  o.cov("evaluations", total.evaluations);
  o.cov("distinct_nontrivial", total.nontrivial);
  o.cov("unicode_scalars_covered", scalars);
  o.cov("strings_over_syntax_alphabet", n_strings);
  o.cov("pattern_lists", n_lists);
  o.cov("long_patterns_and_long_lists", n_sizes);
  o.cov("exhaustive", true);
  o.cov("rule", format!("(i) every Unicode scalar value except NUL as a one-character pattern and embedded as a<c>b; (ii) every string of length 1..={} over the {}-character syntax alphabet; (iii) every list of 1..=3 patterns over {} short patterns; (iv) every alphabet character repeated n times and lists of n patterns for n around every power of two up to 257; plus the empty list. Each input goes through the real build_service_text and the ExecStart line is read back by the reference reader; distinct_nontrivial = inputs (all distinct by construction) whose pattern text had to be changed by the escaper, i.e. the raw pattern does not appear verbatim in the line.", maxlen, alpha.len(), sub.len()));
  o.cov("samples", json!([
    {"patterns": ["*Mouse*"], "exec_start": crate::udev_utils::verif_build_service_text(&["*Mouse*"]).split('\n').find(|l| l.starts_with("ExecStart=")).unwrap_or("")},
    {"patterns": ["it's 100% $HOME"], "exec_start": crate::udev_utils::verif_build_service_text(&["it's 100% $HOME"]).split('\n').find(|l| l.starts_with("ExecStart=")).unwrap_or("")},
    {"patterns": ["a\u{1b}b", "\u{85}"], "exec_start": crate::udev_utils::verif_build_service_text(&["a\u{1b}b", "\u{85}"]).split('\n').find(|l| l.starts_with("ExecStart=")).unwrap_or("")}
  ]));
  o.assumptions = vec![
    "the reference reader is this harness's reading of systemd's documented rules (split on unquoted whitespace, quotes, C escapes with unknown escapes invalid, then % specifiers, then $ variables); the standalone-`;` rule of ExecStart= is not among the rules the property lists and is not part of the oracle".into(),
    "NUL cannot occur in a command-line argument and is excluded".into(),
  ];
  for ((clause, class), (count, pats, detail)) in &total.fails {
    let art = json!({"engine": "C17", "patterns": pats, "code_points": pats.iter().map(|p| p.chars().map(|c| format!("U+{:04X}", c as u32)).collect::<Vec<_>>()).collect::<Vec<_>>(), "class": class});
    o.violations.push(Violation { property: "C17".into(), clause: format!("{} ({})", clause, class), signature: None, description: detail.clone(), artefact: art, count: *count });
  }
  o
}

pub fn replay_artefact(v: &Value) -> i32 {
  let pats: Vec<String> = v["patterns"].as_array().map(|a| a.iter().map(|x| x.as_str().unwrap_or("").to_string()).collect()).unwrap_or_default();
  let refs: Vec<&str> = pats.iter().map(|s| s.as_str()).collect();
  let text = crate::udev_utils::verif_build_service_text(&refs);
  println!("patterns {:?}", pats);
  println!("{}", text.split('\n').find(|l| l.starts_with("ExecStart=")).unwrap_or(""));
  match read_execstart(&text) { Ok(a) => println!("reference reader: {}", show(&a)), Err(e) => println!("reference reader rejects the line: {}", e) }
  println!("expected:         {}", show(&expected_argv(&refs)));
  0
}
