// Shared plumbing: tiers, outcomes, known findings, evidence and replay artefacts.
use serde_json::{json, Map, Value};
use std::time::Instant;

pub const VERIF_DIR: &str = "/verif";

#[derive(Clone, Copy, PartialEq, Eq, Debug)]
pub enum Tier { Quick, Thorough }

impl Tier {
  pub fn name(&self) -> &'static str { match self { Tier::Quick => "quick", Tier::Thorough => "thorough" } }
  pub fn pick<T>(&self, quick: T, thorough: T) -> T { match self { Tier::Quick => quick, Tier::Thorough => thorough } }
}

pub struct Ctx {
  pub id: String,
  pub tier: Tier,
  pub seed: i64,
  pub start: Instant,
  pub threads: usize,
}

#[derive(Clone, Debug)]
pub struct Violation {
  pub property: String,
  pub clause: String,
  /// machine-computed shape of the counter-example; matched against known_findings.json
  pub signature: Option<String>,
  pub description: String,
  /// everything needed to replay it on the real code without the explorer
  pub artefact: Value,
  /// how many (layout, state, input) instances exhibited it
  pub count: u64,
}

pub struct Outcome {
  pub level: &'static str,
  pub coverage: Map<String, Value>,
  pub assumptions: Vec<String>,
  pub violations: Vec<Violation>,
  pub machinery_error: Option<String>,
}

impl Outcome {
  pub fn new(level: &'static str) -> Outcome {
    Outcome { level, coverage: Map::new(), assumptions: vec![], violations: vec![], machinery_error: None }
  }
  pub fn machinery(msg: String) -> Outcome {
    let mut o = Outcome::new("other");
    o.machinery_error = Some(msg);
    o
  }
  pub fn cov<T: Into<Value>>(&mut self, k: &str, v: T) { self.coverage.insert(k.to_string(), v.into()); }
}

#[derive(Clone, Debug)]
pub struct KnownFinding {
  pub property: String,
  pub status: String,
  pub signature: String,
  pub what: String,
  /// the clauses the recorded defect is known to break; a failure of another clause is not covered
  pub clauses: Vec<String>,
}

pub fn load_known_findings() -> Vec<KnownFinding> {
  let path = format!("{}/known_findings.json", VERIF_DIR);
  let text = match std::fs::read_to_string(&path) { Ok(t) => t, Err(_) => return vec![] };
  let v: Value = serde_json::from_str(&text).expect("known_findings.json is not valid JSON");
  let mut res = vec![];
  for f in v["findings"].as_array().cloned().unwrap_or_default() {
    res.push(KnownFinding {
      property: f["property"].as_str().unwrap_or("").to_string(),
      status: f["status"].as_str().unwrap_or("").to_string(),
      signature: f["signature"].as_str().unwrap_or("").to_string(),
      what: f["what_fails"].as_str().unwrap_or("").to_string(),
      clauses: f["clauses"].as_array().map(|a| a.iter().filter_map(|c| c.as_str().map(|s| s.to_string())).collect()).unwrap_or_default(),
    });
  }
  res
}

fn fnv(s: &str) -> u64 {
  let mut h: u64 = 0xcbf29ce484222325;
  for b in s.bytes() { h ^= b as u64; h = h.wrapping_mul(0x100000001b3); }
  h
}

impl Ctx {
  pub fn new(id: &str, tier: Tier) -> Ctx {
    let seed = std::env::var("VERIF_SEED").ok().and_then(|s| s.parse::<i64>().ok()).unwrap_or(0);
    let threads = std::env::var("VERIF_THREADS").ok().and_then(|s| s.parse::<usize>().ok())
      .unwrap_or_else(|| std::thread::available_parallelism().map(|n| n.get()).unwrap_or(4)).max(1);
    Ctx { id: id.to_string(), tier, seed, start: Instant::now(), threads }
  }

  /// Classify violations against the committed known-findings list, write the replay
  /// artefacts and the evidence file, print the verdict lines, return the exit code.
  pub fn finish(&self, mut o: Outcome) -> i32 {
    let known = load_known_findings();
    let mut unlisted: Vec<&Violation> = vec![];
    let mut matched: Vec<(usize, u64)> = vec![]; // (index in known, count)
    for v in &o.violations {
      if v.property != self.id { continue; } // a check reports only its own property
      let hit = v.signature.as_ref().and_then(|sig| known.iter().position(|k| k.status == "open" && k.property == v.property && &k.signature == sig && (k.clauses.is_empty() || k.clauses.contains(&v.clause))));
      match hit {
        Some(i) => { if let Some(m) = matched.iter_mut().find(|m| m.0 == i) { m.1 += v.count; } else { matched.push((i, v.count)); } }
        None => unlisted.push(v),
      }
    }
    let _ = std::fs::create_dir_all(format!("{}/replays", VERIF_DIR));
    let _ = std::fs::create_dir_all(format!("{}/evidence", VERIF_DIR));
    let mut viol_json = vec![];
    // many clause/class combinations of one defect: the first dozen are written out, the rest only counted
    let more = unlisted.len().saturating_sub(12);
    for v in unlisted.iter().take(12) {
      let mut art = v.artefact.clone();
      if let Value::Object(m) = &mut art {
        m.insert("property".into(), json!(v.property));
        m.insert("clause".into(), json!(v.clause));
        m.insert("description".into(), json!(v.description));
      }
      let text = serde_json::to_string_pretty(&art).unwrap();
      let path = format!("{}/replays/{}-{:016x}.json", VERIF_DIR, v.property, fnv(&text));
      std::fs::write(&path, &text).expect("cannot write replay artefact");
      println!("VIOLATION property={} replay={}", v.property, path);
      println!("  clause={} instances={} :: {}", v.clause, v.count, truncate(&v.description, 600));
      viol_json.push(json!({"clause": v.clause, "instances": v.count, "replay": path, "description": truncate(&v.description, 400)}));
    }
    if more > 0 { println!("  ... and {} more failing clause/class combinations of property {} (not written out)", more, self.id); }
    let mut known_json = vec![];
    for (i, c) in &matched {
      println!("KNOWN-FINDING: property={} {} [signature={} instances={}]", known[*i].property, known[*i].what, known[*i].signature, c);
      known_json.push(json!({"signature": known[*i].signature, "instances": c}));
    }
    let wall = self.start.elapsed().as_secs_f64();
    let mut cov = o.coverage.clone();
    cov.insert("known_findings_matched".into(), json!(known_json));
    cov.insert("unlisted_violations".into(), json!(viol_json));
    if let Some(e) = &o.machinery_error { cov.insert("machinery_error".into(), json!(e)); cov.insert("exhaustive".into(), json!(false)); }
    let ev = json!({
      "property_id": self.id,
      "tier": self.tier.name(),
      "seed": self.seed,
      "level": o.level,
      "coverage": Value::Object(cov),
      "assumptions": o.assumptions,
      "wall_s": (wall * 1000.0).round() / 1000.0,
      "violations": unlisted.len(),
    });
    let path = format!("{}/evidence/{}.json", VERIF_DIR, self.id);
    let tmp = format!("{}.tmp", path);
    std::fs::write(&tmp, serde_json::to_string_pretty(&ev).unwrap()).expect("cannot write evidence");
    std::fs::rename(&tmp, &path).expect("cannot move evidence into place");
    if let Some(e) = &o.machinery_error {
      eprintln!("MACHINERY-FAILURE property={} {}", self.id, e);
      return 2;
    }
    if !unlisted.is_empty() { return 1; }
    println!("OK property={} tier={} wall_s={:.1} {}", self.id, self.tier.name(), wall, summary_line(&o.coverage));
    0
  }
}

fn summary_line(c: &Map<String, Value>) -> String {
  let mut parts = vec![];
  for k in ["layouts", "states", "transitions", "executions", "evaluations", "distinct_nontrivial", "traces_validated_against_impl", "exhaustive"] {
    if let Some(v) = c.get(k) { parts.push(format!("{}={}", k, v)); }
  }
  parts.join(" ")
}

pub fn truncate(s: &str, n: usize) -> String {
  if s.len() <= n { s.to_string() } else {
    let mut e = n; while !s.is_char_boundary(e) { e -= 1; }
    format!("{}…", &s[..e])
  }
}

/// Run `f(i)` for i in 0..n on `threads` worker threads (atomic work counter); results
/// are returned in index order so nothing downstream depends on scheduling.
pub fn par_map<T: Send, F: Fn(usize) -> T + Sync>(n: usize, threads: usize, f: F) -> Vec<T> {
  use std::sync::atomic::{AtomicUsize, Ordering};
  use std::sync::Mutex;
  let next = AtomicUsize::new(0);
  let out: Mutex<Vec<(usize, T)>> = Mutex::new(Vec::with_capacity(n));
  std::thread::scope(|sc| {
    for _ in 0..threads.min(n.max(1)) {
      sc.spawn(|| {
        let mut local: Vec<(usize, T)> = vec![];
        loop {
          let i = next.fetch_add(1, Ordering::Relaxed);
          if i >= n { break; }
          local.push((i, f(i)));
        }
        out.lock().unwrap().extend(local);
      });
    }
  });
  let mut v = out.into_inner().unwrap();
  v.sort_by_key(|x| x.0);
  v.into_iter().map(|x| x.1).collect()
}

/// Like par_map but folds results per worker to keep memory flat: `f(i, &mut acc)`.
pub fn par_fold<A: Send, F: Fn(usize, &mut A) + Sync, N: Fn() -> A + Sync, M: Fn(&mut A, A)>(n: usize, threads: usize, new: N, f: F, merge: M) -> A {
  use std::sync::atomic::{AtomicUsize, Ordering};
  use std::sync::Mutex;
  let next = AtomicUsize::new(0);
  let accs: Mutex<Vec<(usize, A)>> = Mutex::new(vec![]);
  std::thread::scope(|sc| {
    for t in 0..threads.min(n.max(1)) {
      let next = &next; let accs = &accs; let f = &f; let new = &new;
      sc.spawn(move || {
        let mut acc = new();
        loop {
          let i = next.fetch_add(1, Ordering::Relaxed);
          if i >= n { break; }
          f(i, &mut acc);
        }
        accs.lock().unwrap().push((t, acc));
      });
    }
  });
  let mut v = accs.into_inner().unwrap();
  v.sort_by_key(|x| x.0);
  let mut total = new();
  for (_, a) in v { merge(&mut total, a); }
  total
}
