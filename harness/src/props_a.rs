// Per-property corpus selection, parallel driver and evidence for Engine A
// (C01–C09, C19).  DESIGN §3.2, §6, §11.
use crate::common::*;
use crate::corpus::*;
use crate::engine_a::*;
use crate::keys::{KeyCode, Layout, Repeat};
use serde_json::{json, Value};
use std::collections::BTreeMap;

#[derive(Clone)]
pub enum Job {
  Fixed { name: String, layout: Layout, alphabet: Vec<KeyCode>, n: usize, alpha_rule: &'static str },
  Gen { family: Family, shapes: std::sync::Arc<Vec<Shape>>, k: usize, idx: usize, n: usize, n_foreign: usize },
}

impl Job {
  fn materialise(&self) -> (String, Layout, Vec<KeyCode>, usize) {
    match self {
      Job::Fixed { name, layout, alphabet, n, .. } => (name.clone(), layout.clone(), alphabet.clone(), *n),
      Job::Gen { family, shapes, k, idx, n, n_foreign } => (format!("{:?}-{}tuple-{}", family, k, idx), tuple_layout(shapes, *family, *k, *idx), gen_alphabet(*n_foreign), *n),
    }
  }
}

#[derive(Clone, Copy, PartialEq)]
pub enum Need { Any, NonAbsorbing, Absorbing, NoRepeat, Special }

fn layout_ok(l: &Layout, need: Need) -> bool {
  match need {
    Need::Any => true,
    Need::NonAbsorbing => !has_absorbing(l),
    Need::Absorbing => has_absorbing(l),
    Need::NoRepeat => has_norepeat(l),
    Need::Special => has_special(l),
  }
}

pub struct GenPlan { pub family: Family, pub cfg: ShapeCfg, pub k: usize, pub n: usize, pub n_foreign: usize, pub label: &'static str }

pub fn fixed_jobs(tier: Tier, need: Need) -> Vec<Job> {
  let mut jobs = vec![];
  for nl in fixed_corpus() {
    if !layout_ok(&nl.layout, need) { continue; }
    let full = with_foreign(mentioned_keys(&nl.layout), &nl.layout, 1);
    let trig = with_foreign(trigger_keys(&nl.layout), &nl.layout, 1);
    if nl.name.starts_with("allmods-") {
      // every standard modifier is in the alphabet, mentioned or not (key-class symmetry checked, not assumed)
      use KeyCode::*;
      let mut a = mentioned_keys(&nl.layout);
      for k in [LEFTSHIFT, RIGHTSHIFT, LEFTCTRL, RIGHTCTRL, LEFTALT, RIGHTALT, LEFTMETA, RIGHTMETA, F1] { if !a.contains(&k) { a.push(k); } }
      let n = if a.len() > 14 { 2 } else { 3 } + if tier == Tier::Thorough { 1 } else { 0 };
      jobs.push(Job::Fixed { name: nl.name, layout: nl.layout, alphabet: a, n, alpha_rule: "all mentioned keys + all eight standard modifiers + F1" });
      continue;
    }
    let (alphabet, n, rule) = match tier {
      Tier::Quick => if full.len() <= 40 { (full, 3, "all mentioned keys + 1 foreign key + 1 foreign modifier") } else if full.len() <= 60 { (trig, 3, "trigger keys + 1 foreign key + 1 foreign modifier") } else { (trig, 2, "trigger keys + 1 foreign key + 1 foreign modifier") },
      Tier::Thorough => if full.len() <= 14 { (with_foreign(mentioned_keys(&nl.layout), &nl.layout, 2), 4, "all mentioned keys + 2 foreign keys + 2 foreign modifiers") } else if full.len() <= 60 { (full, 3, "all mentioned keys + 1 foreign key + 1 foreign modifier") } else { (trig, 3, "trigger keys + 1 foreign key + 1 foreign modifier") },
    };
    jobs.push(Job::Fixed { name: nl.name, layout: nl.layout, alphabet, n, alpha_rule: rule });
  }
  jobs
}

pub fn gen_jobs(plan: &GenPlan, need: Need) -> (Vec<Job>, usize) {
  let sh = std::sync::Arc::new(shapes(&plan.cfg));
  let total = sh.len().pow(plan.k as u32);
  let mut jobs = Vec::new();
  // the need filter is applied on shapes (cheap): a tuple qualifies iff some/no member has the feature
  for idx in 0..total {
    let mut j = idx; let mut any_abs = false; let mut any_nr = false; let mut any_sp = false;
    for _ in 0..plan.k { let s = &sh[j % sh.len()]; j /= sh.len(); any_abs |= !s.absorbing.is_empty(); any_nr |= s.repeat != 0; any_sp |= s.repeat == 2; }
    let ok = match need { Need::Any => true, Need::NonAbsorbing => !any_abs, Need::Absorbing => any_abs, Need::NoRepeat => any_nr, Need::Special => any_sp };
    if ok { jobs.push(Job::Gen { family: plan.family, shapes: sh.clone(), k: plan.k, idx, n: plan.n, n_foreign: plan.n_foreign }); }
  }
  (jobs, sh.len())
}

#[derive(Default)]
pub struct Agg {
  pub layouts: u64,
  pub states: u64,
  pub transitions: u64,
  pub max_depth: usize,
  pub rest_states: u64,
  pub nontrivial_states: u64,
  pub conformance: u64,
  pub blocks: u64,
  pub largest: (usize, String),
  pub antecedents: BTreeMap<&'static str, u64>,
  pub viols: Vec<(Viol, Value, usize)>, // violation, artefact, rank (lower = better witness)
  pub failures: Vec<String>,
  pub samples: Vec<Value>,
  pub panics: Vec<(Value, Vec<Inp>, String)>,
  pub incomplete: Vec<String>,
}

impl Agg {
  fn merge(&mut self, o: Agg) {
    self.layouts += o.layouts; self.states += o.states; self.transitions += o.transitions;
    self.max_depth = self.max_depth.max(o.max_depth); self.rest_states += o.rest_states;
    self.nontrivial_states += o.nontrivial_states; self.conformance += o.conformance; self.blocks += o.blocks;
    if o.largest.0 > self.largest.0 { self.largest = o.largest; }
    for (k, v) in o.antecedents { *self.antecedents.entry(k).or_insert(0) += v; }
    for (v, a, r) in o.viols { self.add_viol(v, a, r); }
    self.failures.extend(o.failures);
    for s in o.samples { if self.samples.len() < 6 { self.samples.push(s); } }
    self.panics.extend(o.panics);
    self.incomplete.extend(o.incomplete);
  }
  fn add_viol(&mut self, v: Viol, art: Value, rank: usize) {
    if let Some(e) = self.viols.iter_mut().find(|e| e.0.prop == v.prop && e.0.clause == v.clause && e.0.sig == v.sig) {
      let c = e.0.count + v.count;
      if rank < e.2 { *e = (v, art, rank); }
      e.0.count = c;
    } else { self.viols.push((v, art, rank)); }
  }
}

pub fn run_jobs(ctx: &Ctx, jobs: &[Job], props: u32, stop_prop: u32, cap_states: usize) -> Agg {
  let known: Vec<(u32, String)> = load_known_findings().into_iter().filter(|k| k.status == "open").map(|k| (prop_bit(&k.property), k.signature)).collect();
  par_fold(jobs.len(), ctx.threads, Agg::default, |ji, acc: &mut Agg| {
    let (name, layout, alphabet, n) = jobs[ji].materialise();
    // generated layouts are tiny on a correct tree (hundreds to a few thousand states): a much lower cap keeps a
    // tree whose bookkeeping grows without bound from exhausting memory before the cap is reported
    let cap_here = match &jobs[ji] { Job::Gen { .. } => cap_states.min(400_000), Job::Fixed { name, .. } if name.starts_with("Q4-") || name.starts_with("S4-") || name.starts_with("S5-") || name.starts_with("K1-") => cap_states.min(400_000), _ => cap_states };
    let opts = Opts { n, max_states: cap_here, props, stop_prop, known: known.clone(), conformance_stride: 64, keep_samples: if ji % 97 == 0 { 1 } else { 0 }, max_depth: 48,
      // the few large fixed layouts expand each BFS level on several threads (results do not depend on the number)
      inner_threads: if ctx.tier == Tier::Thorough && matches!(&jobs[ji], Job::Fixed { .. }) && alphabet.len() >= 30 && n >= 3 { std::env::var("VERIF_INNER_THREADS").ok().and_then(|v| v.parse().ok()).unwrap_or((ctx.threads / 2).max(1)) } else { 1 } };
    let r = explore(&layout, &alphabet, &opts);
    acc.layouts += 1; acc.states += r.states as u64; acc.transitions += r.transitions; acc.max_depth = acc.max_depth.max(r.depth);
    acc.rest_states += r.rest_states as u64; acc.nontrivial_states += r.nontrivial_states; acc.conformance += r.conformance_replayed; acc.blocks += r.blocks as u64;
    if r.states > acc.largest.0 { acc.largest = (r.states, name.clone()); }
    for (k, v) in &r.antecedents { *acc.antecedents.entry(k).or_insert(0) += v; }
    if let Some(f) = &r.conformance_fail { acc.failures.push(format!("conformance: layout {}: {}", name, f)); }
    if !r.complete && !r.stopped_on_violation { acc.incomplete.push(format!("{} ({} at N={} over {} keys: the reachable state space looks unbounded)", name, if r.depth_capped { "BFS depth 48 exceeded".to_string() } else { format!("cap of {} states reached", cap_here) }, n, alphabet.len())); }
    let lj = layout_json(&layout);
    if let Some((p, msg)) = &r.panic { acc.panics.push((json!({"name": name, "layout": lj, "bound": n}), p.clone(), msg.clone())); }
    for s in r.samples { if acc.samples.len() < 6 { acc.samples.push(json!({"layout": name, "mappings": lj["mappings"], "history": s["history"], "held_after": s["held_after"]})); } }
    for v in r.viols {
      let mut art = json!({"engine": "A", "layout_name": name, "layout": lj, "alphabet": alphabet.iter().map(|k| format!("{}", k)).collect::<Vec<_>>(), "bound_keys_held": n,
        "history": v.path.iter().map(|p| p.to_json()).collect::<Vec<_>>(), "history_text": v.path.iter().map(|p| p.short()).collect::<Vec<_>>().join(" "), "signature": v.sig});
      if let Some(c) = v.extra.get("continuation") { art["continuation"] = c.clone(); }
      let rank = layout.mappings.len() * 1_000_000 + v.path.len() * 10_000 + (ji % 10_000);
      acc.add_viol(v, art, rank);
    }
  }, |a, b| a.merge(b))
}

struct Plan {
  need: Need,
  gens: Vec<GenPlan>,
  required_antecedents: Vec<&'static str>,
  rule: String,
}

fn cfg_with(family: Family, finals: &[KeyCode], repeats: &[u8], absorbing: bool, outputs: Option<Vec<usize>>) -> ShapeCfg {
  let mut c = full_cfg(family);
  c.finals = finals.to_vec();
  c.repeats = repeats.to_vec();
  c.absorbing = absorbing;
  c.outputs = outputs;
  c
}

/// shapes with up to three other trigger keys ("any number of trigger modifiers"): finals B and A
fn deep_cfg(family: Family, repeats: &[u8], absorbing: bool) -> ShapeCfg {
  use KeyCode::*;
  let mut c = full_cfg(family);
  c.finals = vec![B, A];
  c.modsets = vec![vec![], vec![CAPSLOCK], vec![CAPSLOCK, LEFTSHIFT], vec![CAPSLOCK, LEFTSHIFT, A]];
  c.repeats = repeats.to_vec();
  c.absorbing = absorbing;
  c
}

/// a small trigger menu for triples: finals A, CAPSLOCK, LEFTSHIFT with at most one other trigger key
fn triple_cfg(family: Family, repeats: &[u8], outputs: Vec<usize>) -> ShapeCfg {
  use KeyCode::*;
  let mut c = full_cfg(family);
  c.finals = vec![A, CAPSLOCK, LEFTSHIFT];
  c.modsets = vec![vec![], vec![CAPSLOCK], vec![LEFTSHIFT]];
  c.repeats = repeats.to_vec();
  c.outputs = Some(outputs);
  c
}

fn plan_for(id: &str, tier: Tier) -> Plan {
  use KeyCode::*;
  let all_f = [A, B, CAPSLOCK, LEFTSHIFT];
  let red_f = [A, CAPSLOCK, LEFTSHIFT];
  let q = tier == Tier::Quick;
  let g = |family, cfg, k, n, nf, label| GenPlan { family, cfg, k, n, n_foreign: nf, label };
  match id {
    // whole corpus, no monitor needed
    "C01" | "C02" | "C19" | "C06" | "C05" => {
      let mut gens = vec![
        g(Family::Gen, full_cfg(Family::Gen), 1, if q { 4 } else { 6 }, 1, "all single mappings of G-gen (thorough: no bound on held keys over the 6-key alphabet)"),
        g(Family::Dist, full_cfg(Family::Dist), 1, if q { 4 } else { 6 }, 1, "all single mappings of G-dist (thorough: no bound on held keys over the 6-key alphabet)"),
      ];
      if q {
        gens.push(g(Family::Gen, cfg_with(Family::Gen, &red_f, &[0, 1], true, Some(vec![0, 2, 3, 5, 7, 8])), 2, 3, 1, "all ordered pairs of reduced G-gen (finals A,CAPSLOCK,LEFTSHIFT; repeat Normal/Disabled; outputs [],[LEFTSHIFT,X],[A],[LEFTSHIFT,A],[LEFTSHIFT],[X,Y])"));
      } else {
        gens.push(g(Family::Gen, cfg_with(Family::Gen, &red_f, &[0, 1, 2], true, None), 2, 3, 1, "all ordered pairs of G-gen with finals A,CAPSLOCK,LEFTSHIFT (all ten output forms, all repeat modes, every absorbing subset)"));
        gens.push(g(Family::Dist, cfg_with(Family::Dist, &red_f, &[0, 1, 2], true, None), 2, 3, 1, "all ordered pairs of G-dist with finals A,CAPSLOCK,LEFTSHIFT (all seven output forms, all repeat modes, every absorbing subset)"));
        gens.push(g(Family::Gen, cfg_with(Family::Gen, &[B], &[0], true, Some(vec![0, 2, 3, 5, 7, 8])), 2, 3, 1, "pairs with final B (the only final that can have A as another trigger key), Normal"));
        gens.push(g(Family::Gen, triple_cfg(Family::Gen, &[0], vec![0, 1, 2, 3, 7]), 3, 3, 1, "all ordered triples of a reduced G-gen (finals A,CAPSLOCK,LEFTSHIFT with at most one other trigger key; Normal; outputs [],[X],[LEFTSHIFT,X],[A],[LEFTSHIFT])"));
        gens.push(g(Family::Gen, triple_cfg(Family::Gen, &[1], vec![0, 2, 3]), 3, 3, 0, "all ordered triples of the same trigger menu, Disabled, outputs [],[LEFTSHIFT,X],[A]"));
        gens.push(g(Family::Gen, cfg_with(Family::Gen, &red_f, &[0, 1], true, Some(vec![0, 2, 3, 7])), 2, 6, 1, "reduced G-gen pairs (outputs [],[LEFTSHIFT,X],[A],[LEFTSHIFT]) with no bound on held keys (6-key alphabet)"));
        gens.push(g(Family::Gen, deep_cfg(Family::Gen, &[0, 1], true), 2, 4, 0, "pairs with up to three other trigger keys (finals B, A), N=4"));
      }
      let req: Vec<&'static str> = match id {
        "C02" => vec!["C02d_mapping_in_effect", "C02b_swallowed_key_physically_held"],
        "C05" => vec!["C05a_foreign_events", "C05b_release_lifts", "C05c_steps_while_mapping_stays_in_effect", "C05a_empty_layout_events"],
        "C06" => vec!["C06_rest_states", "release_all_from_nonrest"],
        _ => vec![],
      };
      Plan { need: Need::Any, gens, required_antecedents: req, rule: String::new() }
    }
    "C03" | "C04" => {
      let mut gens = vec![g(Family::Dist, cfg_with(Family::Dist, &all_f, &[0, 1, 2], false, None), 1, 6, 1, "all non-absorbing single mappings of G-dist, no bound on held keys (6-key alphabet)")];
      if q {
        gens.push(g(Family::Dist, cfg_with(Family::Dist, &all_f, &[0, 1, 2], false, None), 2, 3, 0, "all ordered non-absorbing pairs of G-dist (no foreign keys)"));
        gens.push(g(Family::Dist, deep_cfg(Family::Dist, &[0], false), 2, 4, 0, "non-absorbing Normal pairs with up to three other trigger keys (finals B, A), N=4"));
      } else {
        gens.push(g(Family::Dist, cfg_with(Family::Dist, &all_f, &[0, 1, 2], false, None), 2, 4, 1, "all ordered non-absorbing pairs of G-dist, N=4"));
        gens.push(g(Family::Dist, cfg_with(Family::Dist, &all_f, &[0, 1], false, None), 2, 6, 1, "non-absorbing pairs of G-dist (Normal/Disabled) with no bound on held keys (6-key alphabet)"));
        gens.push(g(Family::Dist, { let mut c = triple_cfg(Family::Dist, &[0, 1], vec![0, 1, 2, 3, 4]); c.absorbing = false; c }, 3, 3, 0, "all ordered non-absorbing triples of a reduced G-dist (finals A,CAPSLOCK,LEFTSHIFT, at most one other trigger key, Normal/Disabled)"));
        gens.push(g(Family::Dist, deep_cfg(Family::Dist, &[0, 1], false), 2, 4, 1, "non-absorbing pairs with up to three other trigger keys (finals B, A), N=4"));
      }
      let req = if id == "C03" { vec!["C03_chord_fired", "C03_chord_fired_from_nonrest", "C03_swallowed_press", "C03_pass_through"] } else { vec!["C04_final_key_pressed", "C04_other_modifier_down"] };
      Plan { need: Need::NonAbsorbing, gens, required_antecedents: req, rule: String::new() }
    }
    "C07" | "C09" => {
      let need = if id == "C07" { Need::NoRepeat } else { Need::Special };
      let reps: &[u8] = if id == "C07" { &[0, 1, 2] } else { &[0, 2] };
      let mut gens = vec![g(Family::Dist, full_cfg(Family::Dist), 1, 6, 1, "all single mappings of G-dist with the repeat mode in question, no bound on held keys (6-key alphabet)")];
      if q {
        gens.push(g(Family::Dist, cfg_with(Family::Dist, &red_f, reps, true, None), 2, 3, 0, "ordered pairs of reduced G-dist (finals A,CAPSLOCK,LEFTSHIFT) containing such a mapping"));
      } else {
        gens.push(g(Family::Dist, full_cfg(Family::Dist), 2, 3, 1, "all ordered pairs of G-dist containing such a mapping"));
        gens.push(g(Family::Gen, cfg_with(Family::Gen, &red_f, reps, true, Some(vec![0, 1, 2, 3, 5, 6])), 2, 3, 1, "ordered pairs of reduced G-gen containing such a mapping"));
        gens.push(g(Family::Dist, triple_cfg(Family::Dist, if id == "C07" { &[0, 1] } else { &[0, 2] }, vec![0, 1, 3]), 3, 3, 0, "ordered triples of a reduced G-dist (at most one other trigger key) containing such a mapping"));
      }
      let req = if id == "C07" { vec!["C07_norepeat_fired", "C07_norepeat_fired_with_keys_held", "C07_steps_while_nr"] } else { vec!["C09_repeating_issued", "C09_ignored_events"] };
      Plan { need, gens, required_antecedents: req, rule: String::new() }
    }
    "C08" => {
      let mut gens = vec![g(Family::Dist, full_cfg(Family::Dist), 1, 6, 1, "all absorbing single mappings of G-dist, no bound on held keys (6-key alphabet)")];
      if q {
        gens.push(g(Family::Dist, cfg_with(Family::Dist, &red_f, &[0, 1], true, Some(vec![0, 1, 3, 4, 6])), 2, 3, 0, "ordered pairs of reduced G-dist (outputs [D],[LEFTSHIFT,D],[],[LEFTMETA],[own modifiers,D]) with an absorbing mapping"));
        gens.push(g(Family::Dist, cfg_with(Family::Dist, &[A, LEFTSHIFT], &[0], true, Some(vec![0, 2, 3])), 3, 3, 0, "ordered triples of a small G-dist subset (finals A,LEFTSHIFT; Normal; outputs [D],[LCTRL,D],[]) with an absorbing mapping — the stacked corner needs three mappings"));
      } else {
        gens.push(g(Family::Dist, full_cfg(Family::Dist), 2, 3, 1, "all ordered pairs of G-dist with an absorbing mapping"));
        gens.push(g(Family::Gen, cfg_with(Family::Gen, &red_f, &[0, 1], true, Some(vec![0, 1, 2, 3, 5, 6, 7, 9])), 2, 3, 1, "ordered pairs of reduced G-gen with an absorbing mapping"));
        gens.push(g(Family::Dist, triple_cfg(Family::Dist, &[0], vec![0, 2, 3, 4]), 3, 3, 0, "ordered triples of a reduced G-dist (at most one other trigger key, Normal) with an absorbing mapping"));
        gens.push(g(Family::Dist, deep_cfg(Family::Dist, &[0], true), 2, 4, 0, "pairs with up to three other trigger keys and every absorbing subset (finals B, A), N=4"));
        gens.push(g(Family::Dist, cfg_with(Family::Dist, &red_f, &[0, 1], true, None), 2, 6, 1, "reduced G-dist pairs with no bound on held keys (6-key alphabet)"));
      }
      Plan { need: Need::Absorbing, gens, required_antecedents: vec!["C08_absorbing_mapping_fired", "C08_press_while_absorbed", "C08b_nonmod_press_while_absorbed", "C08c_trigger_repressed", "C08d_unabsorbed_modifier_counts"], rule: String::new() }
    }
    _ => unreachable!(),
  }
}

/// Q4: four single-key mappings on four ordinary keys (A, B, J, K), every combination of the G-dist output forms
/// and of Normal/Disabled (C09: Normal/Special) — interactions that need four mappings in effect one after another.
pub fn q4_jobs(need: Need, special: bool) -> Vec<Job> {
  use crate::keys::{Mapping, Repeat};
  use KeyCode::*;
  let trig = [A, B, J, K];
  let dk = [X, Y, Z, W];
  let mut jobs = vec![];
  for o in 0..5usize.pow(4) { for r in 0..16usize {
    let mut ms = vec![]; let (mut oo, mut rr) = (o, r);
    for q in 0..4 {
      let to = match oo % 5 { 0 => vec![dk[q]], 1 => vec![LEFTSHIFT, dk[q]], 2 => vec![LEFTCTRL, dk[q]], 3 => vec![], _ => vec![LEFTSHIFT] };
      let repeat = if rr % 2 == 0 { Repeat::Normal } else if special { Repeat::Special { keys: vec![F24, LEFTCTRL], delay_ms: 100 + q as i32, interval_ms: 10 + q as i32 } } else { Repeat::Disabled };
      oo /= 5; rr /= 2;
      ms.push(Mapping { from: vec![trig[q]], to, repeat, absorbing: vec![] });
    }
    let layout = Layout { mappings: ms };
    if !layout_ok(&layout, need) { continue; }
    jobs.push(Job::Fixed { name: format!("Q4-{}-{}", o, r), layout, alphabet: trig.to_vec(), n: 4, alpha_rule: "the four trigger keys" });
  } }
  jobs
}

/// O3: three single-key mappings on A, B, J whose outputs SHARE keys and are up to three keys long (a key that is the
/// final output key of one mapping and an inner output key of another, two action keys in one output, ...).
pub fn shared_output_jobs(need: Need) -> Vec<Job> {
  use crate::keys::{Mapping, Repeat};
  use KeyCode::*;
  let trig = [A, B, J];
  let menu: Vec<Vec<KeyCode>> = vec![vec![X], vec![Y], vec![X, Y], vec![Y, X], vec![LEFTSHIFT, X], vec![LEFTSHIFT, Y], vec![LEFTSHIFT, X, Y], vec![LEFTSHIFT, Y, X], vec![X, Y, Z], vec![LEFTCTRL, LEFTSHIFT, X]];
  let n = menu.len();
  let mut jobs = vec![];
  for idx in 0..n.pow(3) { for last_disabled in [false, true] {
    let mut j = idx; let mut ms = vec![];
    for q in 0..3 { ms.push(Mapping { from: vec![trig[q]], to: menu[j % n].clone(), repeat: if q == 2 && last_disabled { Repeat::Disabled } else { Repeat::Normal }, absorbing: vec![] }); j /= n; }
    let layout = Layout { mappings: ms };
    if !layout_ok(&layout, need) { continue; }
    jobs.push(Job::Fixed { name: format!("O3-{}-{}", idx, last_disabled), layout, alphabet: vec![A, B, J, X], n: 3, alpha_rule: "the three trigger keys and the shared output key X" });
  } }
  jobs
}

/// M2: two chords under two DIFFERENT real modifiers (LEFTSHIFT+A, LEFTCTRL+{LEFTALT,B}), each absorbing its modifier or not,
/// the second with an output that is not a keystroke ([], a modifier) or is one: absorbed keys recorded under two triggers at once.
pub fn two_modifier_jobs(need: Need) -> Vec<Job> {
  use crate::keys::{Mapping, Repeat};
  use KeyCode::*;
  let o1: Vec<Vec<KeyCode>> = vec![vec![LEFTSHIFT, A], vec![X], vec![LEFTSHIFT, X], vec![]];
  let o2: Vec<Vec<KeyCode>> = vec![vec![], vec![RIGHTALT], vec![LEFTSHIFT], vec![Y], vec![LEFTCTRL, Y]];
  let mut jobs = vec![];
  for k2 in [LEFTALT, B] { for (i1, t1) in o1.iter().enumerate() { for (i2, t2) in o2.iter().enumerate() { for abs in 1..4u8 { for r1 in [Repeat::Normal, Repeat::Disabled] { for swap in [false, true] {
    let m1 = Mapping { from: vec![LEFTSHIFT, A], to: t1.clone(), repeat: r1.clone(), absorbing: if abs & 1 != 0 { vec![LEFTSHIFT] } else { vec![] } };
    let m2 = Mapping { from: vec![LEFTCTRL, k2], to: t2.clone(), repeat: Repeat::Normal, absorbing: if abs & 2 != 0 { vec![LEFTCTRL] } else { vec![] } };
    let layout = Layout { mappings: if swap { vec![m2, m1] } else { vec![m1, m2] } };
    if !layout_ok(&layout, need) { continue; }
    jobs.push(Job::Fixed { name: format!("M2-{:?}-{}-{}-{}-{}", k2, i1, i2, abs, swap), layout, alphabet: vec![LEFTSHIFT, A, LEFTCTRL, k2], n: 3, alpha_rule: "the four trigger keys" });
  } } } } } }
  jobs
}

/// M3: three chords under three different real modifiers, two of them absorbing with outputs that are not keystrokes, the
/// third a keystroke on the final key of the second: absorbed keys recorded under two triggers while a third mapping fires.
pub fn three_modifier_jobs(need: Need) -> Vec<Job> {
  use crate::keys::{Mapping, Repeat};
  use KeyCode::*;
  let mut jobs = vec![];
  let m = |from: &[KeyCode], to: &[KeyCode], absorbing: &[KeyCode]| Mapping { from: from.to_vec(), to: to.to_vec(), repeat: Repeat::Normal, absorbing: absorbing.to_vec() };
  for k1 in [CAPSLOCK, T] { for o1 in [vec![LEFTSHIFT], vec![]] { for o2 in [vec![], vec![RIGHTALT]] { for abs in 1..4u8 { for (i3, m3) in [m(&[LEFTCTRL, T], &[X], &[]), m(&[LEFTCTRL, T], &[LEFTCTRL, X], &[]), m(&[T], &[X], &[])].iter().enumerate() { for m3_first in [false, true] {
    let m1 = m(&[LEFTSHIFT, k1], &o1, if abs & 1 != 0 { &[LEFTSHIFT] } else { &[] });
    let m2 = m(&[LEFTALT, T], &o2, if abs & 2 != 0 { &[LEFTALT] } else { &[] });
    let layout = Layout { mappings: if m3_first { vec![m3.clone(), m1, m2] } else { vec![m1, m2, m3.clone()] } };
    if !layout_ok(&layout, need) { continue; }
    let mut alphabet = vec![LEFTSHIFT, LEFTALT, LEFTCTRL, T]; if k1 != T { alphabet.push(k1); }
    jobs.push(Job::Fixed { name: format!("M3-{:?}-{}-{}-{}-{}-{}", k1, o1.len(), o2.len(), abs, i3, m3_first), layout, alphabet, n: 4, alpha_rule: "the trigger keys of the three chords" });
  } } } } } }
  jobs
}

/// K5: every ordered pair of key codes (k1 mapped by k1->[D], k2 foreign), both held: a lookup structure that confuses two
/// key codes (a hash or table collision, a truncated code) is found whatever the pair is.
pub fn key_pair_jobs(need: Need) -> Vec<Job> {
  use crate::keys::{Mapping, Repeat};
  use num_traits::FromPrimitive;
  use KeyCode::*;
  let keys: Vec<KeyCode> = (0u16..0x300).filter_map(KeyCode::from_u16).collect();
  let mut jobs = vec![];
  for k1 in &keys { for k2 in &keys {
    if k1 == k2 { continue; }
    let d = if *k1 != F24 && *k2 != F24 { F24 } else if *k1 != F23 && *k2 != F23 { F23 } else { F22 };
    let layout = Layout { mappings: vec![Mapping { from: vec![*k1], to: vec![d], repeat: Repeat::Normal, absorbing: vec![] }] };
    if !layout_ok(&layout, need) { continue; }
    jobs.push(Job::Fixed { name: format!("K5-{:?}-{:?}", k1, k2), layout, alphabet: vec![*k1, *k2], n: 2, alpha_rule: "the mapped key and the foreign key" });
  } }
  jobs
}

/// NR4: an absorbing chord whose output contains a PHYSICAL key of the alphabet, next to a second single-key mapping in
/// every repeat mode, with four keys held: the chord's output key can be pressed physically while the chord is in effect,
/// and is handed back to pass-through (no event) when the second trigger drops the absorbing mapping.
pub fn handback_jobs(need: Need) -> Vec<Job> {
  use crate::keys::{Mapping, Repeat};
  use KeyCode::*;
  let mut jobs = vec![];
  for md in [LEFTSHIFT, CAPSLOCK] { for (i1, o1) in [vec![B], vec![LEFTSHIFT, B], vec![B, J], vec![md, B]].iter().enumerate() { for u in [K, B] { for (i2, o2) in [vec![X], vec![LEFTCTRL, X], vec![]].iter().enumerate() { for rp in 0..3u8 { for swap in [false, true] {
    if i1 == 1 && md == LEFTSHIFT { continue; } // same as [md, B]
    let repeat = match rp { 0 => Repeat::Normal, 1 => Repeat::Disabled, _ => Repeat::Special { keys: vec![F24, LEFTCTRL], delay_ms: 100, interval_ms: 10 } };
    let m1 = Mapping { from: vec![md, A], to: o1.clone(), repeat: Repeat::Normal, absorbing: vec![md] };
    let m2 = Mapping { from: vec![u], to: o2.clone(), repeat, absorbing: vec![] };
    let layout = Layout { mappings: if swap { vec![m2, m1] } else { vec![m1, m2] } };
    if !layout_ok(&layout, need) { continue; }
    jobs.push(Job::Fixed { name: format!("NR4-{:?}-{}-{:?}-{}-{}-{}", md, i1, u, i2, rp, swap), layout, alphabet: vec![md, A, B, J, K], n: 4, alpha_rule: "the chord modifier, A, the physical output keys B and J, the second trigger K" });
  } } } } } }
  jobs
}

/// S4/S5: four or five mappings ending in the SAME key A (triggers drawn with repetition from [A], [CAPSLOCK,A],
/// [LEFTSHIFT,A], [B,A]), each with its own output key: precedence among many candidates, re-defined triggers.
pub fn same_final_jobs(need: Need, k: usize) -> Vec<Job> {
  use crate::keys::{Mapping, Repeat};
  use KeyCode::*;
  let trigs: [Vec<KeyCode>; 4] = [vec![A], vec![CAPSLOCK, A], vec![LEFTSHIFT, A], vec![B, A]];
  let dk = [X, Y, Z, W, V];
  let mut jobs = vec![];
  for idx in 0..4usize.pow(k as u32) {
    let mut j = idx; let mut ms = vec![];
    for q in 0..k { ms.push(Mapping { from: trigs[j % 4].clone(), to: if q % 2 == 0 { vec![dk[q]] } else { vec![LEFTCTRL, dk[q]] }, repeat: Repeat::Normal, absorbing: vec![] }); j /= 4; }
    let layout = Layout { mappings: ms };
    if !layout_ok(&layout, need) { continue; }
    jobs.push(Job::Fixed { name: format!("S{}-{}", k, idx), layout, alphabet: vec![A, B, CAPSLOCK, LEFTSHIFT], n: 4, alpha_rule: "A, B, CAPSLOCK, LEFTSHIFT" });
  }
  jobs
}

/// K1..K4: every key code the tool knows in every role a layout gives a key, next to a no-repeat mapping - the
/// classification of keys (standard modifier or not) and any other per-key treatment is checked for each code, not
/// assumed by class.  K1: k as the output of a mapping and as a foreign key; K2: k as a single-key trigger;
/// K3: k as chord modifier and absorbed key; K4: k as the key of a Special no-repeat mapping and in its repeat chord.
pub fn every_key_jobs(need: Need) -> Vec<Job> {
  use crate::keys::{Mapping, Repeat};
  use num_traits::FromPrimitive;
  use KeyCode::*;
  let mut jobs = vec![];
  let m = |from: &[KeyCode], to: &[KeyCode], repeat: Repeat, absorbing: &[KeyCode]| Mapping { from: from.to_vec(), to: to.to_vec(), repeat, absorbing: absorbing.to_vec() };
  for code in 0u16..0x300 {
    let k = match KeyCode::from_u16(code) { Some(k) => k, None => continue };
    if k == A || k == C || k == D || k == LEFTSHIFT { continue; }
    let forms: Vec<(&str, Layout, Vec<KeyCode>)> = vec![
      ("K1", Layout { mappings: vec![m(&[A], &[A], Repeat::Disabled, &[]), m(&[C], &[k], Repeat::Normal, &[])] }, vec![A, C, k]),
      ("K2", Layout { mappings: vec![m(&[A], &[A], Repeat::Disabled, &[]), m(&[k], &[D], Repeat::Normal, &[])] }, vec![A, k, D]),
      ("K3", Layout { mappings: vec![m(&[A], &[A], Repeat::Disabled, &[]), m(&[k, C], &[D], Repeat::Normal, &[k])] }, vec![A, C, k]),
      ("K4", Layout { mappings: vec![m(&[k], &[k], Repeat::Special { keys: vec![LEFTSHIFT, k], delay_ms: 100, interval_ms: 10 }, &[]), m(&[C], &[C], Repeat::Normal, &[])] }, vec![k, C, LEFTSHIFT]),
    ];
    for (tag, layout, alphabet) in forms {
      if !layout_ok(&layout, need) { continue; }
      jobs.push(Job::Fixed { name: format!("{}-{:?}", tag, k), layout, alphabet, n: 3, alpha_rule: "the keys of the layout and the key code in question" });
    }
  }
  jobs
}

/// the job list of one property's plan (fixed corpus + generated families + the hand-shaped families), with its description
fn build_jobs(id: &str, tier: Tier) -> (Plan, Vec<Job>, usize, Vec<Value>, Vec<Value>) {
  let all_mode = id == "AALL";
  let plan = plan_for(if all_mode { "C06" } else { id }, tier);
  let ctx_tier = tier;
  let mut jobs = fixed_jobs(tier, plan.need);
  let n_fixed = jobs.len();
  let mut rules: Vec<Value> = vec![];
  for j in &jobs { if let Job::Fixed { name, alphabet, n, alpha_rule, .. } = j { rules.push(json!({"layout": name, "alphabet_size": alphabet.len(), "alphabet": alpha_rule, "bound_keys_held": n})); } }
  let mut gen_rules: Vec<Value> = vec![];
  for gp in &plan.gens {
    let (js, nshapes) = gen_jobs(gp, plan.need);
    gen_rules.push(json!({"family": format!("{:?}", gp.family), "what": gp.label, "shapes": nshapes, "tuple_size": gp.k, "layouts": js.len(), "bound_keys_held": gp.n, "alphabet": gen_alphabet(gp.n_foreign).iter().map(|k| format!("{}", k)).collect::<Vec<_>>()}));
    jobs.extend(js);
  }
  if plan.need != Need::Absorbing {
    let qj = q4_jobs(plan.need, id == "C09");
    gen_rules.push(json!({"family": "Q4", "what": "four single-key mappings on A,B,J,K: every combination of 5 output forms ([D],[LEFTSHIFT,D],[LEFTCTRL,D],[],[LEFTSHIFT]) and of two repeat modes per mapping", "layouts": qj.len(), "bound_keys_held": 4, "alphabet": ["A", "B", "J", "K"]}));
    jobs.extend(qj);
  }
  if plan.need == Need::Any || plan.need == Need::NonAbsorbing {
    let mut sj = same_final_jobs(plan.need, 4);
    if ctx_tier == Tier::Thorough || matches!(id, "C03" | "C04") { sj.extend(same_final_jobs(plan.need, 5)); }
    gen_rules.push(json!({"family": "S4/S5", "what": "four (and five) mappings ending in the same key A, triggers drawn with repetition from [A],[CAPSLOCK,A],[LEFTSHIFT,A],[B,A], distinct outputs", "layouts": sj.len(), "bound_keys_held": 4, "alphabet": ["A", "B", "CAPSLOCK", "LEFTSHIFT"]}));
    jobs.extend(sj);
  }
  {
    let oj = shared_output_jobs(plan.need);
    gen_rules.push(json!({"family": "O3", "what": "three single-key mappings on A,B,J with outputs drawn with repetition from [X],[Y],[X,Y],[Y,X],[LEFTSHIFT,X],[LEFTSHIFT,Y],[LEFTSHIFT,X,Y],[LEFTSHIFT,Y,X],[X,Y,Z],[LEFTCTRL,LEFTSHIFT,X]; the third Normal or Disabled; alphabet A,B,J,X", "layouts": oj.len(), "bound_keys_held": 3}));
    jobs.extend(oj);
    let m3 = three_modifier_jobs(plan.need);
    gen_rules.push(json!({"family": "M3", "what": "[LEFTSHIFT,k1]->o1 (k1 in {CAPSLOCK,T}, o1 in {[LEFTSHIFT],[]}), [LEFTALT,T]->o2 (o2 in {[],[RIGHTALT]}), either or both absorbing their modifier, and a third mapping [LEFTCTRL,T]->[X] / [LEFTCTRL,T]->[LEFTCTRL,X] / T->[X] listed last or first; alphabet = the trigger keys", "layouts": m3.len(), "bound_keys_held": 4}));
    jobs.extend(m3);
    if matches!(id, "C05" | "C03" | "AALL") {
      let k5 = key_pair_jobs(plan.need);
      gen_rules.push(json!({"family": "K5", "what": "every ordered pair (k1, k2) of distinct key codes: layout k1->[F24], alphabet {k1, k2}", "layouts": k5.len(), "bound_keys_held": 2}));
      jobs.extend(k5);
    }
    let mj = two_modifier_jobs(plan.need);
    gen_rules.push(json!({"family": "M2", "what": "[LEFTSHIFT,A]->o1 and [LEFTCTRL,k2]->o2, k2 in {LEFTALT,B}, o1 in {[LEFTSHIFT,A],[X],[LEFTSHIFT,X],[]}, o2 in {[],[RIGHTALT],[LEFTSHIFT],[Y],[LEFTCTRL,Y]}, either or both absorbing their modifier, first Normal or Disabled, both orders; alphabet = the four trigger keys", "layouts": mj.len(), "bound_keys_held": 3}));
    jobs.extend(mj);
  }
  {
    let kj = every_key_jobs(plan.need);
    gen_rules.push(json!({"family": "K1-K4", "what": "for every key code k the tool knows (all but the four fixed keys of the forms): K1 A->[A] Disabled, C->[k]; K2 A->[A] Disabled, k->[D]; K3 A->[A] Disabled, [k,C]->[D] absorbing [k]; K4 k->[k] Special{[LEFTSHIFT,k],100,10}, C->[C]; alphabet = the three keys of the form; forms the property's quantifier excludes are left out", "layouts": kj.len(), "bound_keys_held": 3}));
    jobs.extend(kj);
  }
  {
    let nj = handback_jobs(plan.need);
    gen_rules.push(json!({"family": "NR4", "what": "[M,t]->o1 absorbing [M] (M in {LEFTSHIFT,CAPSLOCK}; o1 in {[B],[LEFTSHIFT,B],[B,J],[M,B]} - output keys that are PHYSICAL keys of the alphabet) next to a second mapping u->o2 (u in {K, B}; o2 in {[X],[LEFTCTRL,X],[]}; Normal / Disabled / Special), both orders; alphabet M, t=A, B, J, K; four keys held: a mapping's output key pressed physically, then handed back to pass-through when another trigger drops the absorbing mapping", "layouts": nj.len(), "bound_keys_held": 4}));
    jobs.extend(nj);
  }
  // big fixed layouts first so that they do not become the tail
  jobs.sort_by_key(|j| match j { Job::Fixed { alphabet, n, .. } => 0usize.wrapping_sub(alphabet.len().pow(*n as u32)), _ => usize::MAX / 2 });
  (plan, jobs, n_fixed, rules, gen_rules)
}

/// C14's mapper half on the generated families: the whole-corpus plan explored with no predicate at all, only for panics
pub fn panic_sweep(ctx: &Ctx) -> (Agg, usize) {
  let (_plan, jobs, _n_fixed, _rules, gen_rules) = build_jobs("C01", ctx.tier);
  // the large fixed layouts are C01's business (a panic there stops C01 as a machinery failure naming C14); here: everything small
  let jobs: Vec<Job> = jobs.into_iter().filter(|j| match j { Job::Fixed { alphabet, n, .. } => alphabet.len().pow(*n as u32) <= 20_000, _ => true }).collect();
  let cap = ctx.tier.pick(6_000_000usize, 40_000_000usize);
  let agg = run_jobs(ctx, &jobs, 0, 0, cap);
  (agg, gen_rules.len())
}

pub fn run(ctx: &Ctx) -> Outcome {
  let id = ctx.id.as_str();
  // AALL (not a registered check): the whole-corpus plan with the predicates of ALL mapper properties at once -
  // a smoke test that costs one exploration instead of ten; its violations are printed per property
  let all_mode = id == "AALL";
  let bit = if all_mode { P_ALL } else { prop_bit(id) };
  let (plan, jobs, n_fixed, rules, gen_rules) = build_jobs(id, ctx.tier);
  let cap = ctx.tier.pick(6_000_000usize, 40_000_000usize);
  let agg = run_jobs(ctx, &jobs, bit, if all_mode { 0 } else { bit }, cap);

  // determinism self-check: the first generated job twice, identical counts
  let mut determinism_ok = true;
  if let Some(j) = jobs.iter().find(|j| matches!(j, Job::Gen { .. })).or(jobs.first()) {
    let a = run_jobs(ctx, std::slice::from_ref(j), bit, 0, cap);
    let b = run_jobs(ctx, std::slice::from_ref(j), bit, 0, cap);
    determinism_ok = a.states == b.states && a.transitions == b.transitions && a.blocks == b.blocks && a.viols.len() == b.viols.len();
  }

  let mut o = Outcome::new("model_checking");
  o.cov("states", agg.states);
  o.cov("transitions", agg.transitions);
  o.cov("evaluations", agg.transitions);
  o.cov("traces_validated_against_impl", agg.conformance);
  o.cov("layouts", agg.layouts);
  o.cov("fixed_layouts", n_fixed as u64);
  o.cov("max_bfs_depth", agg.max_depth as u64);
  o.cov("rest_states", agg.rest_states);
  o.cov("distinct_nontrivial", agg.nontrivial_states);
  o.cov("largest_exploration", json!({"layout": agg.largest.1, "states": agg.largest.0}));
  if bit == P_C06 { o.cov("bisimulation_blocks_total", agg.blocks); }
  o.cov("antecedent_counts", json!(agg.antecedents));
  o.cov("fixed_corpus", json!(rules));
  o.cov("generated_families", json!(gen_rules));
  o.cov("rule", format!("BFS to a fixpoint over (real mapper snapshot, physically held set, virtual held set, monitor) per layout; inputs: press and release of every alphabet key in every state (ill-formed events included) plus release_all; press of a new key disabled only when the bound on held keys is reached; history length unbounded. distinct_nontrivial = distinct product states in which an antecedent of a clause of {} held on some outgoing transition (for C01/C19/C06, whose clauses are unconditional, every state with a key held).", id));
  o.cov("samples", json!(agg.samples));
  o.cov("determinism_recheck", determinism_ok);
  o.cov("exhaustive", agg.incomplete.is_empty() && agg.failures.is_empty());
  o.assumptions = vec![
    "keys not mentioned by a layout are interchangeable within their class (standard modifier / other): the mapper only compares key codes and classifies them with is_action_key".into(),
    "bounds: at most N keys physically held at once (per family above); generated layouts have at most 3 mappings; the fixed corpus goes to 346".into(),
    "after release_all the physically-still-held keys are modelled by the ill-formed continuations from the reset state".into(),
  ];
  for (v, art, _) in &agg.viols {
    // replay the artefact twice on a fresh mapper before reporting it
    let layout: Layout = serde_json::from_value(art["layout"].clone()).unwrap();
    let p1 = replay_path(&layout, &v.path); let p2 = replay_path(&layout, &v.path);
    if p1.0 != p2.0 { o.machinery_error = Some(format!("replay of a counter-example is not deterministic: {:?}", art["history_text"])); }
    o.violations.push(Violation { property: prop_name(v.prop).to_string(), clause: v.clause.to_string(), signature: v.sig.map(|s| s.to_string()), description: v.detail.clone(), artefact: art.clone(), count: v.count });
  }
  if !agg.failures.is_empty() { o.machinery_error = Some(agg.failures[0].clone()); }
  if all_mode {
    for v in &o.violations { println!("AALL: {} / {} sig={:?} instances={} :: {}", v.property, v.clause, v.signature, v.count, truncate(&v.description, 300)); }
  }
  if !agg.incomplete.is_empty() && o.violations.iter().all(|v| v.property != id) { o.machinery_error = Some(format!("state cap reached before the declared space was covered: {}", agg.incomplete[0])); }
  if !determinism_ok { o.machinery_error = Some("two explorations of the same layout gave different counts".into()); }
  if !agg.panics.is_empty() && bit != P_C14 {
    let (l, p, msg) = &agg.panics[0];
    o.machinery_error = Some(format!("the mapper panicked during exploration (that is C14's finding): {} on {} after {:?}", msg, l["name"], p.iter().map(|x| x.short()).collect::<Vec<_>>()));
  }
  if o.machinery_error.is_none() && o.violations.is_empty() {
    for a in &plan.required_antecedents {
      if agg.antecedents.get(a).cloned().unwrap_or(0) == 0 { o.machinery_error = Some(format!("vacuity: antecedent counter {} is zero in this tier", a)); }
    }
  }
  // the loop half (C06: the tablet-mode reset as the loop performs it, timers included; C19: what reaches the device)
  if matches!(id, "C06" | "C19" | "C01" | "C02" | "C05") {
    let (vs, cov, mach) = crate::props_b::loop_half(ctx, id);
    o.cov("loop_half", cov);
    for v in vs { o.violations.push(v); }
    if let Some(m) = mach { if o.machinery_error.is_none() { o.machinery_error = Some(format!("loop half: {}", m)); } }
  }
  // for the unconditional properties every non-rest state is a non-trivial case
  if matches!(id, "C01" | "C19" | "C06") { o.cov("distinct_nontrivial", agg.states - agg.rest_states); }
  o
}
