// Layout corpus: fixed layouts read from the tree at run time, and the generated
// families G-dist / G-gen of DESIGN §3.2.
use crate::keys::{KeyCode, Layout, Mapping, Repeat};
use serde_json::Value;
use std::collections::BTreeSet;

pub fn is_mod(k: &KeyCode) -> bool {
  use KeyCode::*;
  matches!(k, LEFTSHIFT | RIGHTSHIFT | LEFTMETA | RIGHTMETA | LEFTCTRL | RIGHTCTRL | LEFTALT | RIGHTALT)
}

pub fn load_layout_value(v: &Value) -> Result<Layout, String> {
  let f = crate::layout_parsing_formatting::parse_layout_from_json(v)?;
  crate::fancy_layout_interpreting::convert(&f)
}

pub fn load_layout_text(text: &str) -> Result<Layout, String> {
  let v: Value = serde_json::from_str(text).map_err(|e| format!("{}", e))?;
  load_layout_value(&v)
}

#[derive(Clone)]
pub struct Named {
  pub name: String,
  pub layout: Layout,
}

/// README.md ```json blocks: layouts as they are, single mappings wrapped.
pub fn readme_layouts() -> Vec<Named> {
  let text = std::fs::read_to_string("/repo/README.md").unwrap_or_default();
  let mut res = vec![];
  let mut rest = text.as_str();
  let mut i = 0;
  while let Some(p) = rest.find("```json") {
    let after = &rest[p + 7..];
    let end = match after.find("```") { Some(e) => e, None => break };
    let block = &after[..end];
    rest = &after[end + 3..];
    i += 1;
    let v: Value = match serde_json::from_str(block) { Ok(v) => v, Err(_) => continue };
    let v = if v.get("mappings").is_some() { v } else { serde_json::json!({ "mappings": [v] }) };
    if let Ok(layout) = load_layout_value(&v) { res.push(Named { name: format!("readme-{}", i), layout }); }
  }
  res
}

pub fn builtin_layouts() -> Vec<Named> {
  let mut names: Vec<&String> = crate::default_fancy_layouts::DEFAULT_LAYOUTS.keys().collect();
  names.sort();
  names.into_iter().map(|n| Named { name: format!("builtin-{}", n), layout: load_layout_text(crate::default_fancy_layouts::DEFAULT_LAYOUTS[n]).expect("built-in layout must load") }).collect()
}

pub fn syntax_example_layouts() -> Vec<Named> {
  let mut res = vec![];
  let mut paths: Vec<_> = match std::fs::read_dir("/repo/working/syntax-examples") { Ok(d) => d.filter_map(|e| e.ok()).map(|e| e.path()).collect(), Err(_) => vec![] };
  paths.sort();
  for p in paths {
    if p.extension().map(|e| e == "json").unwrap_or(false) {
      if let Ok(t) = std::fs::read_to_string(&p) {
        if let Ok(layout) = load_layout_text(&t) { res.push(Named { name: format!("syntax-{}", p.file_stem().unwrap().to_string_lossy()), layout }); }
      }
    }
  }
  res
}

pub fn unit_test_layouts() -> Vec<Named> {
  let text = std::fs::read_to_string("/verif/corpus/unit_test_layouts.json").expect("corpus/unit_test_layouts.json");
  let v: Value = serde_json::from_str(&text).expect("corpus json");
  let mut res = vec![];
  for (name, l) in v["layouts"].as_object().unwrap() {
    // a corpus layout the loader of this tree rejects is left out (C14/C15 have their own inputs for that); never a panic here
    match load_layout_value(l) { Ok(layout) => res.push(Named { name: name.clone(), layout }), Err(e) => eprintln!("note: corpus layout {} is rejected by the loader of this tree: {}", name, e) }
  }
  res
}

pub fn fixed_corpus() -> Vec<Named> {
  let mut v = vec![];
  v.extend(builtin_layouts());
  v.extend(readme_layouts());
  v.extend(syntax_example_layouts());
  v.extend(unit_test_layouts());
  v
}

pub fn has_absorbing(l: &Layout) -> bool { l.mappings.iter().any(|m| !m.absorbing.is_empty()) }
pub fn has_norepeat(l: &Layout) -> bool { l.mappings.iter().any(|m| m.repeat != Repeat::Normal) }
pub fn has_special(l: &Layout) -> bool { l.mappings.iter().any(|m| matches!(m.repeat, Repeat::Special { .. })) }

pub fn trigger_keys(l: &Layout) -> Vec<KeyCode> {
  let mut s = BTreeSet::new();
  for m in &l.mappings { for k in &m.from { s.insert(*k); } }
  s.into_iter().collect()
}

/// every key the mapper can see mentioned: trigger, output and absorbing keys
pub fn mentioned_keys(l: &Layout) -> Vec<KeyCode> {
  let mut s = BTreeSet::new();
  for m in &l.mappings { for k in m.from.iter().chain(m.to.iter()).chain(m.absorbing.iter()) { s.insert(*k); } }
  s.into_iter().collect()
}

/// Add `n` foreign non-modifier keys and `n` foreign standard modifiers: the first
/// candidates that the layout does not mention anywhere (repeat keys included).
pub fn with_foreign(mut keys: Vec<KeyCode>, layout: &Layout, n: usize) -> Vec<KeyCode> {
  use KeyCode::*;
  let mut mentioned: BTreeSet<KeyCode> = mentioned_keys(layout).into_iter().collect();
  for m in &layout.mappings { if let Repeat::Special { keys, .. } = &m.repeat { for k in keys { mentioned.insert(*k); } } }
  let plain = [F1, F2, F3, F4, KP1, KP2];
  let mods = [LEFTALT, RIGHTALT, RIGHTCTRL, RIGHTMETA, LEFTCTRL, LEFTMETA, RIGHTSHIFT, LEFTSHIFT];
  let ps: Vec<KeyCode> = plain.iter().filter(|k| !mentioned.contains(k) && !keys.contains(k)).take(n).cloned().collect();
  let ms: Vec<KeyCode> = mods.iter().filter(|k| !mentioned.contains(k) && !keys.contains(k)).take(n).cloned().collect();
  for i in 0..n {
    if let Some(k) = ps.get(i) { keys.push(*k); }
    if let Some(k) = ms.get(i) { keys.push(*k); }
  }
  keys
}

// ---------------------------------------------------------------------------
// generated families

#[derive(Clone, Copy, PartialEq, Eq, Debug)]
pub enum Family { Dist, Gen }

#[derive(Clone, Debug)]
pub struct ShapeCfg {
  pub family: Family,
  pub finals: Vec<KeyCode>,
  pub modsets: Vec<Vec<KeyCode>>,
  pub repeats: Vec<u8>, // 0 Normal, 1 Disabled, 2 Special
  pub absorbing: bool,
  pub outputs: Option<Vec<usize>>, // indices into the family's output menu (None = all)
}

#[derive(Clone, Debug, PartialEq, Eq)]
pub struct Shape {
  pub from: Vec<KeyCode>,
  pub to: Vec<KeyCode>, // `X` stands for "the distinguished key of this mapping" in Family::Dist
  pub repeat: u8,
  pub absorbing: Vec<KeyCode>,
}

pub fn full_cfg(family: Family) -> ShapeCfg {
  use KeyCode::*;
  ShapeCfg {
    family,
    finals: vec![A, B, CAPSLOCK, LEFTSHIFT],
    modsets: vec![vec![], vec![CAPSLOCK], vec![LEFTSHIFT], vec![A], vec![CAPSLOCK, LEFTSHIFT]],
    repeats: vec![0, 1, 2],
    absorbing: true,
    outputs: None,
  }
}

/// placeholder in an output form: replaced by the mapping's own other trigger keys ("the chord keeps its modifiers")
pub const OWN_MODS: KeyCode = KeyCode::UNKNOWN;

pub fn output_menu(family: Family) -> Vec<Vec<KeyCode>> {
  use KeyCode::*;
  match family {
    Family::Dist => vec![vec![X], vec![LEFTSHIFT, X], vec![LEFTCTRL, X], vec![], vec![LEFTMETA], vec![LEFTCTRL, LEFTSHIFT, X], vec![OWN_MODS, X]],
    Family::Gen => vec![vec![], vec![X], vec![LEFTSHIFT, X], vec![A], vec![B], vec![LEFTSHIFT, A], vec![LEFTMETA], vec![LEFTSHIFT], vec![X, Y], vec![CAPSLOCK]],
  }
}

pub fn shapes(cfg: &ShapeCfg) -> Vec<Shape> {
  let menu = output_menu(cfg.family);
  let outs: Vec<Vec<KeyCode>> = match &cfg.outputs { None => menu, Some(ix) => ix.iter().map(|i| menu[*i].clone()).collect() };
  let mut res = vec![];
  for f in &cfg.finals {
    for ms in &cfg.modsets {
      if ms.contains(f) { continue; }
      for to in &outs {
        for rp in &cfg.repeats {
          let mut abss: Vec<Vec<KeyCode>> = vec![vec![]];
          // every non-empty subset of the other trigger keys
          // and, because the order of an absorbing list is visible to the implementation (keys are released in list order),
          // both orders of every two-key subset
          if cfg.absorbing { for mask in 1..(1u32 << ms.len()) {
            let sub: Vec<KeyCode> = ms.iter().enumerate().filter(|(i, _)| mask & (1 << i) != 0).map(|(_, k)| *k).collect();
            if sub.len() == 2 { abss.push(vec![sub[1], sub[0]]); }
            abss.push(sub);
          } }
          for ab in abss {
            let mut from = ms.clone();
            from.push(*f);
            res.push(Shape { from, to: to.clone(), repeat: *rp, absorbing: ab });
          }
        }
      }
    }
  }
  res
}

/// Distinguished output keys of G-dist: never in any physical alphabet.
pub const DIST_KEYS: [KeyCode; 3] = [KeyCode::X, KeyCode::Y, KeyCode::Z];

/// Build the layout for the k-tuple number `idx` (mixed radix over `shapes`, first
/// mapping varies fastest).  Special repeats get parameters unique to the mapping's
/// position so that a mix-up between mappings is observable.
pub fn tuple_layout(shapes: &[Shape], family: Family, k: usize, idx: usize) -> Layout {
  let mut ms = vec![];
  let mut j = idx;
  for q in 0..k {
    let s = &shapes[j % shapes.len()];
    j /= shapes.len();
    let mut to: Vec<KeyCode> = vec![];
    for k in &s.to { if *k == OWN_MODS { for f in &s.from[..s.from.len() - 1] { if !to.contains(f) { to.push(*f); } } } else if !to.contains(k) { to.push(*k); } }
    if family == Family::Dist {
      if let Some(l) = to.last_mut() { if *l == KeyCode::X { *l = DIST_KEYS[q]; } }
    }
    let repeat = match s.repeat {
      0 => Repeat::Normal,
      1 => Repeat::Disabled,
      _ => Repeat::Special { keys: vec![KeyCode::F24, KeyCode::LEFTCTRL], delay_ms: 100 + q as i32, interval_ms: 10 + q as i32 }, // deliberately not in key-code order
    };
    ms.push(Mapping { from: s.from.clone(), to, repeat, absorbing: s.absorbing.clone() });
  }
  Layout { mappings: ms }
}

/// Physical alphabet of the generated families: the four layout keys plus foreign
/// representatives that no generated layout mentions (F1/F2 and LEFTALT/RIGHTALT).
pub fn gen_alphabet(n_foreign: usize) -> Vec<KeyCode> {
  use KeyCode::*;
  let mut v = vec![A, B, CAPSLOCK, LEFTSHIFT];
  let f = [F1, LEFTALT, F2, RIGHTALT];
  for k in f.iter().take(2 * n_foreign) { v.push(*k); }
  v
}

pub fn layout_json(l: &Layout) -> Value { serde_json::to_value(l).unwrap() }
