// C18 — records written to uinput are well-formed `struct input_event`s (DESIGN §5.3, §6-C18).
// The real DevInputWriter writes into a pipe, the bytes are decoded with libc::input_event as
// the layout oracle, re-injected, and read back by the real DevInputReader.
use crate::common::*;
use crate::dev_input_rw::{DevInputReader, DevInputWriter};
use crate::keys::{Event, KeyCode};
use num_traits::FromPrimitive;
use serde_json::{json, Value};

const EV_SYN: u16 = 0;
const EV_KEY: u16 = 1;

struct Pipe { r: i32, w: i32 }
impl Pipe {
  fn new() -> Pipe { let mut fds = [0i32; 2]; unsafe { assert_eq!(libc::pipe2(fds.as_mut_ptr(), libc::O_NONBLOCK), 0); } Pipe { r: fds[0], w: fds[1] } }
  fn drain(&self) -> Vec<u8> {
    let mut out = vec![];
    let mut buf = vec![0u8; 65536];
    loop { let n = unsafe { libc::read(self.r, buf.as_mut_ptr() as *mut libc::c_void, buf.len()) }; if n <= 0 { break; } out.extend_from_slice(&buf[..n as usize]); }
    out
  }
  fn inject(&self, bytes: &[u8]) { let n = unsafe { libc::write(self.w, bytes.as_ptr() as *const libc::c_void, bytes.len()) }; assert_eq!(n as usize, bytes.len()); }
}
impl Drop for Pipe { fn drop(&mut self) { unsafe { libc::close(self.r); libc::close(self.w); } } }

fn record(type_: u16, code: u16, value: i32) -> Vec<u8> {
  // encoded with libc's own struct, independent of struct_ser.rs
  let mut ev: libc::input_event = unsafe { std::mem::zeroed() };
  ev.type_ = type_; ev.code = code; ev.value = value;
  let p = &ev as *const libc::input_event as *const u8;
  unsafe { std::slice::from_raw_parts(p, std::mem::size_of::<libc::input_event>()) }.to_vec()
}

fn decode(bytes: &[u8]) -> Option<Vec<(u16, u16, i32)>> {
  let sz = std::mem::size_of::<libc::input_event>();
  if bytes.len() % sz != 0 { return None; }
  Some((0..bytes.len() / sz).map(|i| { let e: libc::input_event = unsafe { std::ptr::read_unaligned(bytes.as_ptr().add(i * sz) as *const libc::input_event) }; (e.type_, e.code, e.value) }).collect())
}

fn key_of(e: &Event) -> (KeyCode, i32) { match e { Event::Pressed(k) => (*k, 1), Event::Released(k) => (*k, 0) } }

/// one batch through writer -> bytes -> oracle -> reader; Err((clause, detail))
fn check_batch(batch: &Vec<Event>) -> Result<(), (&'static str, String)> {
  let p = Pipe::new();
  let mut w = DevInputWriter::verif_from_fd(p.w);
  let mut r = DevInputReader { fd: p.r };
  w.send(batch).map_err(|e| ("write-failed", format!("{}", e)))?;
  let bytes = p.drain();
  let sz = std::mem::size_of::<libc::input_event>();
  if bytes.len() != (batch.len() + 1) * sz { return Err(("wrong-byte-length", format!("{} bytes written for {} events; struct input_event is {} bytes", bytes.len(), batch.len(), sz))); }
  let recs = decode(&bytes).unwrap();
  for (i, e) in batch.iter().enumerate() {
    let (k, v) = key_of(e);
    let (t, c, val) = recs[i];
    if t != EV_KEY || c != (k as i32 as u16) || val != v { return Err(("wrong-record", format!("record {} is (type {}, code {}, value {}) for {:?} (kernel code {})", i, t, c, val, e, k as i32))); }
  }
  if recs[batch.len()] != (EV_SYN, 0, 0) { return Err(("missing-syn-report", format!("last record is {:?}", recs[batch.len()]))); }
  if recs[..batch.len()].iter().any(|r| r.0 == EV_SYN) { return Err(("extra-syn", format!("{:?}", recs))); }
  // decode with the tool's own reader
  p.inject(&bytes);
  for e in batch {
    match r.next() { Ok(got) if got == *e => {}, other => return Err(("reader-decodes-differently", format!("reader returned {:?} for {:?}", other.map_err(|e| format!("{}", e)), e))) }
  }
  match r.next() { Err(nix::Error::Sys(nix::errno::Errno::EAGAIN)) => Ok(()), other => Err(("reader-returns-extra-event", format!("after the batch the reader returned {:?}", other.map_err(|e| format!("{}", e))))) }
}

#[derive(Clone, Copy, Debug, PartialEq)]
enum Kind { Press, Release, AutoRepeat, ValueMinus1, Value3, Syn, Msc, UnknownCode, Sw }
const KINDS: [Kind; 9] = [Kind::Press, Kind::Release, Kind::AutoRepeat, Kind::ValueMinus1, Kind::Value3, Kind::Syn, Kind::Msc, Kind::UnknownCode, Kind::Sw];

fn unknown_code() -> u16 { (1u16..0x300).find(|c| KeyCode::from_u16(*c).is_none()).expect("an unknown code") }

fn kind_record(k: Kind, key: KeyCode) -> (Vec<u8>, Option<Event>) {
  let code = key as i32 as u16;
  match k {
    Kind::Press => (record(EV_KEY, code, 1), Some(Event::Pressed(key))),
    Kind::Release => (record(EV_KEY, code, 0), Some(Event::Released(key))),
    Kind::AutoRepeat => (record(EV_KEY, code, 2), None),
    Kind::ValueMinus1 => (record(EV_KEY, code, -1), None),
    Kind::Value3 => (record(EV_KEY, code, 3), None),
    Kind::Syn => (record(EV_SYN, 0, 0), None),
    Kind::Msc => (record(4, 4, 458756), None),
    Kind::UnknownCode => (record(EV_KEY, unknown_code(), 1), None),
    Kind::Sw => (record(5, 1, 1), None),
  }
}

/// read side over raw (type, code, value) records: every event type x a few codes x a few values
fn check_raw_sequence(seq: &[(u16, u16, i32)]) -> Result<(), (&'static str, String)> {
  let p = Pipe::new();
  let mut r = DevInputReader { fd: p.r };
  let mut bytes = vec![];
  let mut exp = vec![];
  for (t, c, v) in seq {
    bytes.extend(record(*t, *c, *v));
    if *t == EV_KEY && (*v == 0 || *v == 1) { if let Some(k) = KeyCode::from_u16(*c) { exp.push(if *v == 1 { Event::Pressed(k) } else { Event::Released(k) }); } }
  }
  bytes.extend(record(EV_KEY, KeyCode::ESC as i32 as u16, 1)); exp.push(Event::Pressed(KeyCode::ESC));
  bytes.extend(record(EV_SYN, 0, 0));
  p.inject(&bytes);
  for e in &exp {
    match r.next() { Ok(got) if got == *e => {}, other => return Err(("reader-does-not-skip-foreign-records", format!("records {:?} + sentinel: reader returned {:?} where {:?} was expected", seq, other.map_err(|e| format!("{}", e)), e))) }
  }
  match r.next() { Err(nix::Error::Sys(nix::errno::Errno::EAGAIN)) => Ok(()), other => Err(("reader-returns-extra-event", format!("records {:?} + sentinel: after all records the reader returned {:?}", seq, other.map_err(|e| format!("{}", e))))) }
}

fn check_read_sequence(seq: &[Kind]) -> Result<(), (&'static str, String)> {
  let p = Pipe::new();
  let mut r = DevInputReader { fd: p.r };
  let keys = [KeyCode::A, KeyCode::LEFTSHIFT, KeyCode::K1, KeyCode::F24];
  let mut bytes = vec![];
  let mut exp = vec![];
  for (i, k) in seq.iter().enumerate() { let (b, e) = kind_record(*k, keys[i % keys.len()]); bytes.extend(b); if let Some(e) = e { exp.push(e); } }
  // sentinel: a valid press that must come out last
  let (b, e) = kind_record(Kind::Press, KeyCode::ESC); bytes.extend(b); exp.push(e.unwrap());
  p.inject(&bytes);
  for e in &exp {
    match r.next() { Ok(got) if got == *e => {}, other => return Err(("reader-does-not-skip-foreign-records", format!("sequence {:?}: reader returned {:?} where {:?} was expected", seq, other.map_err(|e| format!("{}", e)), e))) }
  }
  match r.next() { Err(nix::Error::Sys(nix::errno::Errno::EAGAIN)) => Ok(()), other => Err(("reader-returns-extra-event", format!("sequence {:?}: after all records the reader returned {:?}", seq, other.map_err(|e| format!("{}", e))))) }
}

pub fn run(ctx: &Ctx) -> Outcome {
  let q = ctx.tier == Tier::Quick;
  let mut o = Outcome::new("exploration");
  let codes: Vec<KeyCode> = (0u16..0x300).filter_map(KeyCode::from_u16).collect();
  let mut evals = 0u64; let mut nontrivial = 0u64;
  let mut fails: Vec<(&'static str, String, Value)> = vec![];
  // (i) every known code, press and release, one-event batches
  for k in &codes { for ev in [Event::Pressed(*k), Event::Released(*k)] {
    evals += 1; nontrivial += 1;
    if let Err((c, d)) = check_batch(&vec![ev.clone()]) { fails.push((c, d, json!({"batch": [format!("{:?}", ev)]}))); }
  } }
  // (ii) every batch of length 0..=L over boundary codes
  let largest = *codes.iter().max_by_key(|k| **k as i32).unwrap();
  let mut boundary: Vec<KeyCode> = vec![KeyCode::ESC, KeyCode::K1, largest];
  for c in [255u16, 256, 0x1ff, 0x2ff] { if let Some(k) = (0..=c).rev().filter_map(KeyCode::from_u16).next() { if !boundary.contains(&k) { boundary.push(k); } } }
  let evs: Vec<Event> = boundary.iter().flat_map(|k| vec![Event::Pressed(*k), Event::Released(*k)]).collect();
  let maxlen = if q { 3 } else { 4 };
  let mut batches: Vec<Vec<Event>> = vec![vec![]];
  let mut level: Vec<Vec<Event>> = vec![vec![]];
  for _ in 0..maxlen { let mut next = vec![]; for b in &level { for e in &evs { let mut t = b.clone(); t.push(e.clone()); next.push(t); } } batches.extend(next.iter().cloned()); level = next; }
  let nb = batches.len();
  let r2: Vec<Option<(&'static str, String)>> = par_map(nb, ctx.threads, |i| check_batch(&batches[i]).err());
  for (i, r) in r2.into_iter().enumerate() { evals += 1; if batches[i].len() != 1 { nontrivial += 1; } if let Some((c, d)) = r { fails.push((c, d, json!({"batch": batches[i].iter().map(|e| format!("{:?}", e)).collect::<Vec<_>>()}))); } }
  // (ii-b) long batches: n alternating events for n around every power of two up to 1025 (buffer / chunk thresholds)
  for n in [4usize, 7, 8, 9, 15, 16, 17, 31, 32, 33, 63, 64, 65, 127, 128, 129, 255, 256, 257, 511, 512, 513, 1023, 1024, 1025] {
    let b: Vec<Event> = (0..n).map(|i| { let k = boundary[i % boundary.len()]; if (i / boundary.len()) % 2 == 0 { Event::Pressed(k) } else { Event::Released(k) } }).collect();
    evals += 1; nontrivial += 1;
    if let Err((c, d)) = check_batch(&b) { fails.push((c, d, json!({"batch": b.iter().map(|e| format!("{:?}", e)).collect::<Vec<_>>()}))); }
  }
  // (ii-c) a failed write must not leak into the next batch: fill the pipe until the writer gets EAGAIN, drain it, send again
  // (same writer, and a second writer that sends after the first one's failure)
  for n_fail in [1usize, 2, 3] { for second_writer in [false, true] {
    evals += 1; nontrivial += 1;
    let p1 = Pipe::new();
    let junk = vec![0xaau8; 1 << 20];
    unsafe { libc::write(p1.w, junk.as_ptr() as *const libc::c_void, junk.len()); } // fills the pipe (non-blocking, partial write)
    let mut w1 = DevInputWriter::verif_from_fd(p1.w);
    let mut failed = 0;
    for i in 0..n_fail { if w1.send(&vec![Event::Pressed(boundary[i % boundary.len()]), Event::Released(boundary[i % boundary.len()])]).is_err() { failed += 1; } }
    let _ = p1.drain();
    let batch = vec![Event::Pressed(KeyCode::A)];
    let bytes = if second_writer { let p2 = Pipe::new(); let mut w2 = DevInputWriter::verif_from_fd(p2.w); let _ = w2.send(&batch); p2.drain() } else { let _ = w1.send(&batch); p1.drain() };
    let sz = std::mem::size_of::<libc::input_event>();
    let ok = bytes.len() == 2 * sz && decode(&bytes).map(|r| r[0] == (EV_KEY, KeyCode::A as i32 as u16, 1) && r[1] == (EV_SYN, 0, 0)).unwrap_or(false);
    if failed != n_fail { fails.push(("harness-could-not-make-a-write-fail", format!("{} of {} writes into a full pipe failed", failed, n_fail), json!({"scenario": "failed-write"}))); }
    else if !ok { fails.push(("batch-after-failed-write-malformed", format!("after {} failed write(s){} the batch [Pressed(A)] was written as {} bytes: {:?}", n_fail, if second_writer { " on another writer" } else { "" }, bytes.len(), decode(&bytes)), json!({"scenario": "failed-write", "failed_writes": n_fail, "second_writer": second_writer}))); }
  } }
  // (iii) read side: every sequence of record kinds up to the bound, then a sentinel
  let maxseq = if q { 4 } else { 5 };
  let mut seqs: Vec<Vec<Kind>> = vec![vec![]];
  let mut level: Vec<Vec<Kind>> = vec![vec![]];
  for _ in 0..maxseq { let mut next = vec![]; for s in &level { for k in KINDS.iter() { let mut t = s.clone(); t.push(*k); next.push(t); } } seqs.extend(next.iter().cloned()); level = next; }
  let r3: Vec<Option<(&'static str, String)>> = par_map(seqs.len(), ctx.threads, |i| check_read_sequence(&seqs[i]).err());
  let mut skipped_kinds = 0u64;
  for (i, r) in r3.into_iter().enumerate() { evals += 1; if seqs[i].iter().any(|k| !matches!(k, Kind::Press | Kind::Release)) { nontrivial += 1; skipped_kinds += 1; } if let Some((c, d)) = r { fails.push((c, d, json!({"read_sequence": seqs[i].iter().map(|k| format!("{:?}", k)).collect::<Vec<_>>()}))); } }

  // (iv) raw records: every event type 0..=0x1f x codes {0,1,2,3,30,0x2ff} x values {-1,0,1,2}; all singles and all ordered pairs (a foreign record followed by a key record and vice versa)
  let mut raw: Vec<(u16, u16, i32)> = vec![];
  for t in 0u16..=0x1f { for c in [0u16, 1, 2, 3, 30, 0x2ff] { for v in [-1i32, 0, 1, 2] { raw.push((t, c, v)); } } }
  let nr = raw.len();
  let key_recs: Vec<(u16, u16, i32)> = vec![(EV_KEY, 30, 1), (EV_KEY, 30, 0), (EV_KEY, 42, 1)];
  let total_raw = nr + 2 * nr * key_recs.len() + if q { 0 } else { nr * nr };
  let r4: Vec<Option<(&'static str, String)>> = par_map(total_raw, ctx.threads, |i| {
    if i < nr { check_raw_sequence(&[raw[i]]).err() }
    else if i < nr + nr * key_recs.len() { let j = i - nr; check_raw_sequence(&[raw[j / key_recs.len()], key_recs[j % key_recs.len()]]).err() }
    else if i < nr + 2 * nr * key_recs.len() { let j = i - nr - nr * key_recs.len(); check_raw_sequence(&[key_recs[j % key_recs.len()], raw[j / key_recs.len()], key_recs[(j + 1) % key_recs.len()]]).err() }
    else { let j = i - nr - 2 * nr * key_recs.len(); check_raw_sequence(&[raw[j / nr], raw[j % nr], key_recs[0]]).err() }
  });
  for (i, r) in r4.into_iter().enumerate() { evals += 1; nontrivial += 1; if let Some((c, d)) = r { fails.push((c, d, json!({"raw_index": i}))); } }
  o.cov("raw_record_sequences", total_raw as u64);
  // (ii-d) all-or-nothing under a virtual keyboard with room for only part of a batch: a one-page pipe pre-filled so that
  // exactly `room` bytes fit; the writer must either write the whole batch (and say Ok) or nothing of it (and say Err)
  let sz = std::mem::size_of::<libc::input_event>();
  let mut near_cases = 0u64;
  for n in 1..=(if q { 20usize } else { 40 }) { for room_recs in 0..=(n + 2) { for extra in [0usize, 7] {
    let room = room_recs * sz + extra;
    let p = Pipe::new();
    if unsafe { libc::fcntl(p.w, libc::F_SETPIPE_SZ, 4096) } < 0 || room > 4096 { continue; }
    let junk = vec![0xEEu8; 4096 - room];
    if !junk.is_empty() { let w = unsafe { libc::write(p.w, junk.as_ptr() as *const libc::c_void, junk.len()) }; if w as usize != junk.len() { continue; } }
    let batch: Vec<Event> = (0..n).map(|i| { let k = boundary[i % boundary.len()]; if (i / boundary.len()) % 2 == 0 { Event::Pressed(k) } else { Event::Released(k) } }).collect();
    let mut w = DevInputWriter::verif_from_fd(p.w);
    let res = w.send(&batch);
    let all = p.drain();
    let got = &all[junk.len().min(all.len())..];
    evals += 1; nontrivial += 1; near_cases += 1;
    let need = (n + 1) * sz;
    let ok = if need <= room { res.is_ok() && got.len() == need } else { res.is_err() && got.is_empty() };
    if !ok && !fails.iter().any(|f| f.0 == "batch-partly-written-when-the-device-has-little-room") {
      fails.push(("batch-partly-written-when-the-device-has-little-room", format!("a batch of {} events ({} bytes with its SYN_REPORT) sent to a device with room for {} bytes: send returned {:?} and {} bytes arrived ({:?}); a batch that fits must arrive whole with Ok, one that does not fit must fail with nothing of it written", n, need, room, res.as_ref().map(|_| ()).map_err(|e| format!("{}", e)), got.len(), decode(got)), json!({"scenario": "little-room", "events": n, "room_bytes": room})));
    }
  } } }
  o.cov("batches_against_a_device_with_little_room", near_cases);
  // (v) reports of many records through the REAL driver's send path (Engine R, DESIGN 4.3): a key that produces ten keys,
  // release-all batches of 7..12 keys at a tablet-mode change - each batch must arrive as one report
  {
    let r = crate::engine_r::run_family(ctx, "C18");
    o.cov("real_descriptor_tier", json!({"what": "the unmodified RealDriver + loop over socket pairs and a pipe, stepped; scenarios whose steps produce large batches; oracle = per step exactly the mapper's batches, each as records + one SYN_REPORT", "scenarios": r.runs, "writes_to_devices": r.steps, "distinct_observations": r.distinct_outputs.len(), "note": r.note}));
    evals += r.runs; nontrivial += r.runs;
    for ((prop, clause), (count, detail, art)) in &r.viols {
      if prop == "C18" { fails.push(("real-driver-batch-not-one-report", detail.clone(), art.clone())); let _ = (clause, count); }
      else { println!("NOTE property=C18: a real-driver scenario of this check shows a discrepancy that belongs to {} ({}): {}", prop, clause, truncate(detail, 300)); }
    }
    if let Some(e) = &r.machinery { o.machinery_error = Some(e.clone()); }
  }
  o.cov("evaluations", evals);
  o.cov("distinct_nontrivial", nontrivial);
  o.cov("known_key_codes", codes.len() as u64);
  o.cov("sizeof_input_event", std::mem::size_of::<libc::input_event>() as u64);
  o.cov("write_batches", nb as u64 + 2 * codes.len() as u64);
  o.cov("read_sequences", seqs.len() as u64);
  o.cov("read_sequences_with_foreign_records", skipped_kinds);
  o.cov("exhaustive", true);
  o.cov("rule", format!("(i) every key code KeyCode::from_u16 knows x {{press, release}} as a one-event batch; (ii) every batch of length 0..={} over {} boundary codes x {{press, release}}; (ii-b) long alternating batches of n events for n around every power of two up to 1025; (ii-c) one to three failed writes (full pipe) followed by a batch on the same or on a second writer; (ii-d) batches of 1..=20 (thorough 40) events against a one-page pipe with room for 0..=n+2 records (and 7 bytes more): all of the batch with Ok, or nothing of it with Err; (v) large batches through the real driver's send path on real descriptors (Engine R); (iii) every sequence of length 0..={} over 9 record kinds (valid press/release, value 2/-1/3, EV_SYN, EV_MSC, EV_KEY with an unknown code, EV_SW) followed by a sentinel press; (iv) raw records of every event type 0..=0x1f x 6 codes x 4 values, alone, before and between key records (thorough: all ordered pairs). All inputs are distinct by construction; non-trivial = single-code batches (each a distinct code/value), multi-event or empty batches, and read sequences containing at least one record the reader must skip.", maxlen, boundary.len(), maxseq));
  let sample_bytes = { let p = Pipe::new(); let mut w = DevInputWriter::verif_from_fd(p.w); w.send(&vec![Event::Pressed(KeyCode::A)]).ok(); p.drain().iter().map(|b| format!("{:02x}", b)).collect::<Vec<_>>().join("") };
  let sample_read = format!("{:?}", check_read_sequence(&[Kind::AutoRepeat, Kind::Syn, Kind::Press]));
  o.cov("samples", json!([{"batch": ["Pressed(A)"], "bytes": sample_bytes}, {"read_sequence": ["AutoRepeat", "Syn", "Press"], "check": sample_read}]));
  o.assumptions = vec!["libc::input_event of this target is the layout oracle (size and field offsets)".into(), "a pipe stands in for /dev/uinput and the evdev node: byte streams only, no ioctls".into()];
  let mut seen: Vec<&'static str> = vec![];
  for (c, d, art) in &fails {
    let count = fails.iter().filter(|f| f.0 == *c).count() as u64;
    if seen.contains(c) { continue; }
    seen.push(c);
    let mut a = art.clone(); a["engine"] = json!("C18");
    o.violations.push(Violation { property: "C18".into(), clause: c.to_string(), signature: None, description: d.clone(), artefact: a, count });
  }
  o
}

fn parse_event(s: &str) -> Option<Event> {
  let (press, inner) = if let Some(r) = s.strip_prefix("Pressed(") { (true, r) } else if let Some(r) = s.strip_prefix("Released(") { (false, r) } else { return None };
  let name = inner.strip_suffix(")")?;
  let k = (0u16..0x300).filter_map(KeyCode::from_u16).find(|k| format!("{:?}", k) == name)?;
  Some(if press { Event::Pressed(k) } else { Event::Released(k) })
}

pub fn replay_artefact(v: &Value) -> i32 {
  if let Some(b) = v["batch"].as_array() {
    let batch: Vec<Event> = b.iter().filter_map(|x| x.as_str().and_then(parse_event)).collect();
    let p = Pipe::new();
    let mut w = DevInputWriter::verif_from_fd(p.w);
    let _ = w.send(&batch);
    let bytes = p.drain();
    println!("batch {:?}", batch);
    println!("bytes {}", bytes.iter().map(|b| format!("{:02x}", b)).collect::<Vec<_>>().join(""));
    println!("records (type, code, value) by libc::input_event: {:?}", decode(&bytes));
    println!("check: {:?}", check_batch(&batch));
  }
  if let Some(sq) = v["read_sequence"].as_array() {
    let seq: Vec<Kind> = sq.iter().filter_map(|x| KINDS.iter().find(|k| Some(format!("{:?}", k).as_str()) == x.as_str()).cloned()).collect();
    println!("read sequence {:?} + sentinel press of ESC", seq);
    println!("check: {:?}", check_read_sequence(&seq));
  }
  println!("description: {}", v["description"].as_str().unwrap_or(""));
  0
}
