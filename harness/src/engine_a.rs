// Engine A — explicit-state exploration of the real `Mapper::step` (DESIGN §3).
//
// One exploration = one layout × one key alphabet × one bound N on keys physically
// held at once.  BFS to a fixpoint over product states
//   (opaque snapshot of the real mapper, phys, out, monitor)
// where every transition restores the snapshot into a real Mapper and calls the real
// `step` / `release_all`.  Predicates of the selected properties are evaluated on
// every transition; C06 adds a partition-refinement pass over the finished graph.
use crate::common::*;
use crate::corpus::is_mod;
use crate::key_transforms::{Mapper, ResultingRepeat, StepResult, VerifSnapshot};
use crate::keys::Event::{Pressed, Released};
use crate::keys::{Event, KeyCode, Layout, Mapping, Repeat};
use serde_json::{json, Value};
use std::collections::{BTreeMap, BTreeSet, HashMap, VecDeque};

pub const P_C01: u32 = 1 << 1;
pub const P_C02: u32 = 1 << 2;
pub const P_C03: u32 = 1 << 3;
pub const P_C04: u32 = 1 << 4;
pub const P_C05: u32 = 1 << 5;
pub const P_C06: u32 = 1 << 6;
pub const P_C07: u32 = 1 << 7;
pub const P_C08: u32 = 1 << 8;
pub const P_C09: u32 = 1 << 9;
pub const P_C14: u32 = 1 << 14;
pub const P_C19: u32 = 1 << 19;
pub const P_ALL: u32 = P_C01 | P_C02 | P_C03 | P_C04 | P_C05 | P_C06 | P_C07 | P_C08 | P_C09 | P_C19;

pub fn prop_bit(id: &str) -> u32 {
  match id { "C01" => P_C01, "C02" => P_C02, "C03" => P_C03, "C04" => P_C04, "C05" => P_C05, "C06" => P_C06, "C07" => P_C07, "C08" => P_C08, "C09" => P_C09, "C14" => P_C14, "C19" => P_C19, _ => 0 }
}
pub fn prop_name(bit: u32) -> &'static str {
  match bit { P_C01 => "C01", P_C02 => "C02", P_C03 => "C03", P_C04 => "C04", P_C05 => "C05", P_C06 => "C06", P_C07 => "C07", P_C08 => "C08", P_C09 => "C09", P_C14 => "C14", P_C19 => "C19", _ => "?" }
}

pub const SIG_STACKED: &str = "stacked-absorption";
pub const SIG_MODFINAL: &str = "modifier-final-output";

#[derive(Clone, Debug, PartialEq, Eq, Hash)]
pub enum Inp { Press(KeyCode), Release(KeyCode), ReleaseAll }

impl Inp {
  pub fn to_json(&self) -> Value {
    match self { Inp::Press(k) => json!({"press": format!("{}", k)}), Inp::Release(k) => json!({"release": format!("{}", k)}), Inp::ReleaseAll => json!("release_all") }
  }
  pub fn from_json(v: &Value) -> Option<Inp> {
    if v.as_str() == Some("release_all") { return Some(Inp::ReleaseAll); }
    let parse = |s: &str| -> Option<KeyCode> { serde_json::from_value(json!(s)).ok() };
    if let Some(s) = v.get("press").and_then(|x| x.as_str()) { return parse(s).map(Inp::Press); }
    if let Some(s) = v.get("release").and_then(|x| x.as_str()) { return parse(s).map(Inp::Release); }
    None
  }
  pub fn short(&self) -> String {
    match self { Inp::Press(k) => format!("{}↓", k), Inp::Release(k) => format!("{}↑", k), Inp::ReleaseAll => "RESET".to_string() }
  }
}

/// Monitor state (DESIGN §3.3): a deterministic function of the layout, the physical
/// history and the observed step results — never of the mapper's private vectors.
#[derive(Clone, PartialEq, Eq, Hash, Debug, Default)]
pub struct Mon {
  /// mappings in effect by the plain reference rule (used only in non-absorbing layouts)
  e: Vec<u16>,
  /// an earlier step observably contradicted the reference firing rule; cleared at rest
  taint: bool,
  /// over-approximation of the keys that may currently be absorbed (still physically held)
  maybe_abs: Vec<KeyCode>,
  /// under-approximation: (M, t) — M certainly absorbed by a mapping fired from trigger t
  abs: Vec<(KeyCode, KeyCode)>,
  /// known-finding signature bit: a non-key-producing absorbing mapping may have fired from
  /// another trigger while an earlier absorbed modifier was still held
  stacked: bool,
  /// (mapping, stage) for C08(c): 0 = fired, expecting release of its trigger; 1 = expecting re-press
  refire: Option<(u16, u8)>,
  /// a no-repeat mapping certainly fired and no press has been acted on since (C07)
  nr: bool,
}

#[derive(Clone, PartialEq, Eq, Hash)]
struct PState {
  snap: VerifSnapshot,
  phys: Vec<KeyCode>,
  out: Vec<KeyCode>,
  mon: Mon,
}

#[derive(Clone, Debug)]
pub struct Viol {
  pub prop: u32,
  pub clause: &'static str,
  pub sig: Option<&'static str>,
  pub count: u64,
  pub path: Vec<Inp>,
  pub detail: String,
  pub extra: Value,
}

pub struct Opts {
  pub n: usize,
  pub max_states: usize,
  pub props: u32,
  /// property whose unlisted violation ends the exploration of this layout early
  pub stop_prop: u32,
  /// signatures (prop bit, sig) of open known findings: they never stop the search
  pub known: Vec<(u32, String)>,
  pub conformance_stride: usize,
  pub keep_samples: usize,
  /// guard against bookkeeping that grows without bound: BFS levels beyond this are not expanded (reported as incomplete)
  pub max_depth: u32,
  /// worker threads for the expansion of one BFS level of this layout (1 = sequential)
  pub inner_threads: usize,
}

#[derive(Default)]
pub struct LayoutResult {
  pub states: usize,
  pub transitions: u64,
  pub depth: usize,
  pub rest_states: usize,
  pub complete: bool,
  pub stopped_on_violation: bool,
  pub viols: Vec<Viol>,
  pub antecedents: BTreeMap<&'static str, u64>,
  pub nontrivial_states: u64,
  pub conformance_replayed: u64,
  pub conformance_fail: Option<String>,
  pub blocks: usize,
  pub rest_structurally_distinct: usize,
  pub samples: Vec<Value>,
  pub panic: Option<(Vec<Inp>, String)>,
  pub depth_capped: bool,
}

struct LayoutInfo {
  nm: usize,
  has_abs: bool,
  mentioned: BTreeSet<KeyCode>,
  /// per mapping: non-modifier output keys that only this mapping (among mappings with the
  /// same final trigger key) outputs — their press in a step proves that this mapping fired
  unique_out: Vec<Vec<KeyCode>>,
  /// per mapping: output keys no other mapping of the whole layout outputs
  private_out: Vec<Vec<KeyCode>>,
  absorbable: BTreeSet<KeyCode>,
  by_final: HashMap<KeyCode, Vec<u16>>,
  /// keys with a single-key mapping that occur in no mapping's output (C02 b)
  swallowed: Vec<KeyCode>,
}

fn layout_info(layout: &Layout) -> LayoutInfo {
  let ms = &layout.mappings;
  let mut mentioned = BTreeSet::new();
  let mut absorbable = BTreeSet::new();
  let mut by_final: HashMap<KeyCode, Vec<u16>> = HashMap::new();
  for (i, m) in ms.iter().enumerate() {
    for k in m.from.iter().chain(m.to.iter()).chain(m.absorbing.iter()) { mentioned.insert(*k); }
    if let Repeat::Special { keys, .. } = &m.repeat { for k in keys { mentioned.insert(*k); } }
    for k in &m.absorbing { absorbable.insert(*k); }
    if let Some(f) = m.from.last() { by_final.entry(*f).or_default().push(i as u16); }
  }
  let mut unique_out = vec![];
  let mut private_out = vec![];
  for (i, m) in ms.iter().enumerate() {
    let fk = m.from.last();
    let u: Vec<KeyCode> = m.to.iter().filter(|x| !is_mod(x) && Some(*x) != fk
      && !ms.iter().enumerate().any(|(j, m2)| j != i && m2.from.last() == fk && m2.to.contains(x))).cloned().collect();
    unique_out.push(u);
    let p: Vec<KeyCode> = m.to.iter().filter(|x| !ms.iter().enumerate().any(|(j, m2)| j != i && m2.to.contains(x))).cloned().collect();
    private_out.push(p);
  }
  let mut swallowed: Vec<KeyCode> = ms.iter().filter(|m| m.from.len() == 1).map(|m| m.from[0]).filter(|x| !ms.iter().any(|m| m.to.contains(x))).collect();
  swallowed.sort(); swallowed.dedup();
  LayoutInfo { nm: ms.len(), has_abs: ms.iter().any(|m| !m.absorbing.is_empty()), mentioned, unique_out, private_out, absorbable, by_final, swallowed }
}

fn ends_in_mod(m: &Mapping) -> bool { m.to.last().map(|k| is_mod(k)).unwrap_or(false) }
fn key_producing(m: &Mapping) -> bool { m.to.last().map(|k| !is_mod(k)).unwrap_or(false) }

#[derive(Clone, Debug, PartialEq)]
enum Firing { Nothing, Certain(usize), Unknown(Vec<usize>) }

fn repeat_of(m: &Mapping) -> ResultingRepeat {
  match &m.repeat {
    Repeat::Special { keys, delay_ms, interval_ms } => ResultingRepeat::Repeating { keys: keys.clone(), delay_ms: *delay_ms, interval_ms: *interval_ms },
    _ => ResultingRepeat::Disabled,
  }
}

fn insert_sorted<T: Ord + Clone>(v: &mut Vec<T>, x: &T) { if let Err(p) = v.binary_search(x) { v.insert(p, x.clone()); } }
fn remove_sorted<T: Ord>(v: &mut Vec<T>, x: &T) { if let Ok(p) = v.binary_search(x) { v.remove(p); } }

struct Recorder<'a> {
  viols: &'a mut Vec<Viol>,
  origins: &'a mut Vec<(u32, u16)>,
  props: u32,
  origin: (u32, u16),
}

impl<'a> Recorder<'a> {
  fn report(&mut self, prop: u32, clause: &'static str, sig: Option<&'static str>, path: &dyn Fn() -> Vec<Inp>, detail: &dyn Fn() -> String) {
    if self.props & prop == 0 { return; }
    if let Some(v) = self.viols.iter_mut().find(|v| v.prop == prop && v.clause == clause && v.sig == sig) { v.count += 1; return; }
    self.viols.push(Viol { prop, clause, sig, count: 1, path: path(), detail: detail(), extra: Value::Null });
    self.origins.push(self.origin);
  }
}

fn repeat_json(r: &ResultingRepeat) -> Value {
  match r {
    ResultingRepeat::Disabled => json!("Disabled"),
    ResultingRepeat::NoChange => json!("NoChange"),
    ResultingRepeat::Repeating { keys, delay_ms, interval_ms } => json!({"Repeating": {"keys": keys.iter().map(|k| format!("{}", k)).collect::<Vec<_>>(), "delay_ms": delay_ms, "interval_ms": interval_ms}}),
  }
}
pub fn events_str(evs: &[Event]) -> String {
  let v: Vec<String> = evs.iter().map(|e| match e { Pressed(k) => format!("+{}", k), Released(k) => format!("-{}", k) }).collect();
  format!("[{}]", v.join(" "))
}


/// what one worker collects while expanding states; merged by the driver in state order
#[derive(Default)]
struct Local {
  viols: Vec<Viol>,
  origins: Vec<(u32, u16)>,
  ante: BTreeMap<&'static str, u64>,
  transitions: u64,
  nontrivial_states: u64,
  panic: Option<(u32, u16, String)>,
}

struct Succ { ai: u16, ns: PState, events: Vec<Event>, repeat: Value }

struct Cx<'a> { layout: &'a Layout, info: &'a LayoutInfo, alphabet: &'a [KeyCode], opts: &'a Opts, ninp: usize }

/// All transitions of one state: executes the real step / release_all for every enabled input, evaluates the
/// predicates of the selected properties, returns the successors.  Pure in (state, layout): safe to run in parallel.
fn expand_state(cx: &Cx, mapper: &mut Mapper, si: u32, s: &PState, loc: &mut Local) -> Vec<Succ> {
  let (info, alphabet, opts, ninp) = (cx.info, cx.alphabet, cx.opts, cx.ninp);
  let ms = &cx.layout.mappings;
  let want = |p: u32| opts.props & p != 0;
  let inp_of = |ai: usize| -> Inp {
    if ai == ninp - 1 { Inp::ReleaseAll } else if ai % 2 == 0 { Inp::Press(alphabet[ai / 2]) } else { Inp::Release(alphabet[ai / 2]) }
  };
  let mut succs: Vec<Succ> = Vec::with_capacity(ninp);
  let mut nontrivial = false;
  for ai in 0..ninp {
      let inp = inp_of(ai);
      if let Inp::Press(k) = &inp { if !s.phys.contains(k) && s.phys.len() >= opts.n { continue; } }
      mapper.verif_restore(&s.snap);
      let full_path = || -> Vec<Inp> { vec![] }; // paths are derived from the recorded origin (state, input) after the search
      // ---- execute the real code
      let exec = std::panic::catch_unwind(std::panic::AssertUnwindSafe(|| match &inp {
        Inp::Press(k) => mapper.step(Pressed(*k)),
        Inp::Release(k) => mapper.step(Released(*k)),
        Inp::ReleaseAll => StepResult { events: mapper.release_all(), repeat: ResultingRepeat::Disabled },
      }));
      loc.transitions += 1;
      let r = match exec {
        Ok(r) => r,
        Err(p) => { loc.panic = Some((si, ai as u16, panic_text(&p))); return succs; }
      };
      let mut rec = Recorder { viols: &mut loc.viols, origins: &mut loc.origins, props: opts.props, origin: (si, ai as u16) };
      let ante = &mut loc.ante;
      let mut out = s.out.clone();
      let mut phys = s.phys.clone();
      let mut mon = s.mon.clone();

      match &inp {
        Inp::ReleaseAll => {
          // tablet-mode reset (C06, C19)
          let mut pressed_any = false; let mut redundant = false;
          for oe in &r.events {
            match oe {
              Pressed(x) => { pressed_any = true; if out.contains(x) { redundant = true; } else { insert_sorted(&mut out, x); } }
              Released(x) => { if !out.contains(x) { redundant = true; } remove_sorted(&mut out, x); }
            }
          }
          *ante.entry("release_all_from_nonrest").or_insert(0) += (!s.phys.is_empty()) as u64;
          if redundant { rec.report(P_C19, "release-all-redundant", None, &full_path, &|| format!("release_all emitted {} while held={:?}", events_str(&r.events), s.out)); }
          if pressed_any { rec.report(P_C06, "release-all-presses", None, &full_path, &|| format!("release_all emitted {}", events_str(&r.events))); }
          if !out.is_empty() {
            rec.report(P_C06, "release-all-leaves-held", None, &full_path, &|| format!("after release_all {:?} still held; emitted {}", out, events_str(&r.events)));
            rec.report(P_C01, "stuck-after-reset", None, &full_path, &|| format!("after release_all {:?} still held", out));
          }
          phys.clear();
          mon = Mon::default();
        }
        Inp::Press(k) | Inp::Release(k) => {
          let press = matches!(inp, Inp::Press(_));
          let k = *k;
          let in_phys = s.phys.contains(&k);
          let maybe = s.mon.maybe_abs.contains(&k);
          // ---- reference: acted?
          let acted: Option<bool> = if press {
            if !in_phys { Some(true) } else if !maybe { Some(false) } else { None }
          } else {
            if !in_phys { Some(false) } else if !maybe { Some(true) } else { None }
          };
          if press { insert_sorted(&mut phys, &k); } else { remove_sorted(&mut phys, &k); }
          let uncertain_abs = !s.mon.maybe_abs.is_empty();
          // ---- reference: what fires?
          let acted_r: Option<bool> = if in_phys && info.has_abs && info.absorbable.contains(&k) { None } else { acted };
          let mut q_phys: Vec<usize> = vec![];
          if press && acted_r != Some(false) {
            if let Some(g) = info.by_final.get(&k) {
              for &i in g { let m = &ms[i as usize]; if m.from[..m.from.len() - 1].iter().all(|f| s.phys.contains(f)) { q_phys.push(i as usize); } }
            }
          }
          let firing = if !press || acted == Some(false) || q_phys.is_empty() { Firing::Nothing }
            else if !uncertain_abs && acted == Some(true) { Firing::Certain(*q_phys.last().unwrap()) }
            else { Firing::Unknown(q_phys.clone()) };
          // What the other properties may rely on in layouts with absorbing mappings: whether an absorbable key that is
          // physically down is still "considered held", and which of several candidates fires when one of them needs an
          // absorbable key, is C08's subject — C05/C07/C09 treat both as open there (no cascade alarms, DESIGN §3.3).
          let firing_r = if !press || acted_r == Some(false) || q_phys.is_empty() { Firing::Nothing }
            else if acted_r.is_none() { Firing::Unknown(q_phys.clone()) }
            else { match &firing {
              Firing::Certain(i) if info.has_abs && q_phys.iter().any(|&j| ms[j].from[..ms[j].from.len() - 1].iter().any(|f| info.absorbable.contains(f))) => Firing::Unknown(q_phys.clone()),
              Firing::Nothing => Firing::Unknown(q_phys.clone()),
              f => f.clone(),
            } };
          let mentioned_by_e = !info.has_abs && press && acted == Some(true) && q_phys.is_empty()
            && s.mon.e.iter().any(|&i| ms[i as usize].from.contains(&k) || ms[i as usize].to.contains(&k));
          // E (plain rule)
          let e_before = &s.mon.e;
          if !info.has_abs {
            if press && acted == Some(true) { if let Firing::Certain(i) = &firing { insert_sorted(&mut mon.e, &(*i as u16)); } }
            if !press && acted == Some(true) { mon.e.retain(|&i| !ms[i as usize].from.contains(&k)); }
          }
          let e_after = mon.e.clone();
          let tainted = s.mon.taint;

          // ---- observe the step
          let mut pressed_in_step: Vec<KeyCode> = vec![];
          let mut released_in_step: Vec<KeyCode> = vec![];
          let mut down_sometime: BTreeSet<KeyCode> = s.out.iter().cloned().collect();
          let obs_fired: Vec<usize> = if press {
            info.by_final.get(&k).map(|g| g.iter().map(|i| *i as usize).filter(|&i| info.unique_out[i].iter().any(|x| r.events.contains(&Pressed(*x)))).collect()).unwrap_or_default()
          } else { vec![] };
          let certain_fired: Option<usize> = match &firing { Firing::Certain(i) => Some(*i), Firing::Unknown(_) if obs_fired.len() == 1 => Some(obs_fired[0]), _ => None };
          let certain_fired_r: Option<usize> = match &firing_r { Firing::Certain(i) => Some(*i), Firing::Unknown(_) if obs_fired.len() == 1 => Some(obs_fired[0]), _ => None };
          let pressed_all: Vec<KeyCode> = r.events.iter().filter_map(|e| if let Pressed(x) = e { Some(*x) } else { None }).collect();
          // the observation does not show a different mapping at work / shows all of the predicted mapping's keys
          let no_other_pressed = match certain_fired { Some(i) => pressed_all.iter().all(|x| ms[i].to.contains(x)), None => true };
          let all_pressed = match certain_fired { Some(i) => ms[i].to.iter().all(|x| is_mod(x) || pressed_all.contains(x)), None => true };
          let step_consistent = no_other_pressed && all_pressed;
          let no_other_pressed_r = match certain_fired_r { Some(i) => pressed_all.iter().all(|x| ms[i].to.contains(x)), None => true };
          let fires_norepeat_exact = match &firing { Firing::Certain(i) => ms[*i].repeat != Repeat::Normal, _ => false };
          // over-approximation for uncertain situations: some no-repeat mapping could fire on this press
          let fires_norepeat_may = press && q_phys.iter().any(|&i| ms[i].repeat != Repeat::Normal);
          let norepeat_excuse = if !info.has_abs && !tainted { fires_norepeat_exact } else { fires_norepeat_may };
          let abs_relevant: Vec<(KeyCode, KeyCode)> = if press && acted != Some(false) { s.mon.abs.iter().filter(|(m_, t)| *t != k && *m_ != k && s.phys.contains(m_)).cloned().collect() } else { vec![] };
          let stacked_sig = if s.mon.stacked { Some(SIG_STACKED) } else { None };
          if !abs_relevant.is_empty() { *ante.entry("C08_press_while_absorbed").or_insert(0) += 1; nontrivial = true; }

          for oe in &r.events {
            match oe {
              Pressed(x) => {
                if out.contains(x) { rec.report(P_C19, "double-press", None, &full_path, &|| format!("{} pressed while already down; step output {}", x, events_str(&r.events))); }
                else { insert_sorted(&mut out, x); }
                if !press { rec.report(P_C02, "c-release-causes-press", None, &full_path, &|| format!("release of {} emitted {}", k, events_str(&r.events))); }
                pressed_in_step.push(*x);
                down_sometime.insert(*x);
                // C04 at the press of the fired mapping's final output key
                if want(P_C04) && !info.has_abs {
                  if let Firing::Certain(mi) = &firing {
                    let m = &ms[*mi];
                    if m.to.last() == Some(x) {
                      *ante.entry("C04_final_key_pressed").or_insert(0) += 1; nontrivial = true;
                      for md in m.to.iter().filter(|y| is_mod(y) && *y != x) {
                        if !out.contains(md) { rec.report(P_C04, "i-listed-modifier-not-down", None, &full_path, &|| format!("{} not down when {} pressed; step output {}", md, x, events_str(&r.events))); }
                      }
                      if !tainted && step_consistent {
                        for d in out.iter().filter(|y| is_mod(y) && !m.to.contains(y)) {
                          let ok_phys = phys.contains(d) && !m.from.contains(d);
                          let ok_modremap = e_after.iter().any(|&i| { let m2 = &ms[i as usize]; ends_in_mod(m2) && m2.to.contains(d) });
                          *ante.entry("C04_other_modifier_down").or_insert(0) += 1;
                          if !(ok_phys || ok_modremap) {
                            // recorded shape (§7.1): the final output key is a modifier AND the stale modifier was pressed by a
                            // key-producing mapping that is still in effect; a passed-through trigger modifier of the firing mapping left down is not it
                            let from_held_chord = e_before.iter().any(|&i| key_producing(&ms[i as usize]) && ms[i as usize].to.contains(d));
                            let sig = if is_mod(x) && from_held_chord { Some(SIG_MODFINAL) } else { None };
                            rec.report(P_C04, "ii-stale-modifier", sig, &full_path, &|| format!("{} is down when final output key {} is pressed, is neither physically held outside the trigger nor the output of a held modifier-remapping; step output {}", d, x, events_str(&r.events)));
                          }
                        }
                      }
                    }
                  }
                }
                // C08(b)
                if want(P_C08) && !is_mod(x) {
                  for (m_abs, t) in &abs_relevant {
                    *ante.entry("C08b_nonmod_press_while_absorbed").or_insert(0) += 1;
                    if out.contains(m_abs) {
                      let outputs_m = ms.iter().any(|m2| m2.to.contains(m_abs) && m2.from.iter().all(|f| phys.contains(f)));
                      if !outputs_m { rec.report(P_C08, "b-absorbed-modifier-down-at-keypress", stacked_sig, &full_path, &|| format!("{} (absorbed under trigger {}) is down when {} is pressed by the press of {}; step output {}", m_abs, t, x, k, events_str(&r.events))); }
                    }
                  }
                }
              }
              Released(x) => {
                if !out.contains(x) { rec.report(P_C19, "release-of-up", None, &full_path, &|| format!("{} released while not down; step output {}", x, events_str(&r.events))); }
                remove_sorted(&mut out, x);
                released_in_step.push(*x);
                if want(P_C05) {
                  if !info.mentioned.contains(x) {
                    let ok = (!press && *x == k) || (!is_mod(x) && norepeat_excuse);
                    if !ok { rec.report(P_C05, "a-foreign-lifted", None, &full_path, &|| format!("foreign key {} lifted by {}; step output {}", x, inp.short(), events_str(&r.events))); }
                  }
                  if !info.has_abs && !tainted {
                    if !press && acted == Some(true) {
                      *ante.entry("C05b_release_lifts").or_insert(0) += 1;
                      let ok = *x == k || e_before.iter().any(|&i| ms[i as usize].from.contains(&k) && ms[i as usize].to.contains(x));
                      if !ok { rec.report(P_C05, "b-release-lifts-unrelated", None, &full_path, &|| format!("release of {} lifted {}; step output {}", k, x, events_str(&r.events))); }
                      if e_after.iter().any(|&i| ms[i as usize].to.contains(x)) { rec.report(P_C05, "b-release-lifts-remaining-output", None, &full_path, &|| format!("release of {} lifted {} which a mapping remaining in effect outputs; step output {}", k, x, events_str(&r.events))); }
                    }
                    for &i in e_before.iter().filter(|i| step_consistent && e_after.contains(i)) {
                      let m = &ms[i as usize];
                      if !info.private_out[i as usize].contains(x) { continue; }
                      let modremap = ends_in_mod(m);
                      let plain_normal = m.repeat == Repeat::Normal && m.to.iter().all(|y| !is_mod(y));
                      if modremap && is_mod(x) { rec.report(P_C05, "c-modremap-modifier-lifted", None, &full_path, &|| format!("{} of held modifier-remapping {:?}->{:?} lifted by {}; step output {}", x, m.from, m.to, inp.short(), events_str(&r.events))); }
                      if plain_normal && !fires_norepeat_exact { rec.report(P_C05, "c-plain-normal-output-lifted", None, &full_path, &|| format!("{} of held mapping {:?}->{:?} lifted by {}; step output {}", x, m.from, m.to, inp.short(), events_str(&r.events))); }
                    }
                  }
                }
              }
            }
          }

          // ---- C05(a) foreign keys
          if want(P_C05) {
            if !info.has_abs && !tainted && e_before.iter().any(|i| e_after.contains(i) && !info.private_out[*i as usize].is_empty()) { *ante.entry("C05c_steps_while_mapping_stays_in_effect").or_insert(0) += 1; nontrivial = true; }
            let foreign_k = !info.mentioned.contains(&k);
            if foreign_k { *ante.entry("C05a_foreign_events").or_insert(0) += 1; nontrivial = true; }
            if press && acted == Some(true) && foreign_k && r.events.last() != Some(&Pressed(k)) {
              rec.report(P_C05, "a-foreign-not-pressed", None, &full_path, &|| format!("press of foreign key {} gave {}", k, events_str(&r.events)));
            }
            for x in &pressed_in_step {
              if !info.mentioned.contains(x) && !(press && acted == Some(true) && *x == k) { rec.report(P_C05, "a-foreign-pressed-spuriously", None, &full_path, &|| format!("{} pressed by {}; step output {}", x, inp.short(), events_str(&r.events))); }
            }
            if !press && foreign_k && out.contains(&k) { rec.report(P_C05, "a-foreign-stuck", None, &full_path, &|| format!("{} still down after its release", k)); }
            if ms.is_empty() {
              *ante.entry("C05a_empty_layout_events").or_insert(0) += 1; nontrivial = true;
              let exp: Vec<Event> = if acted == Some(true) { vec![if press { Pressed(k) } else { Released(k) }] } else { vec![] };
              if r.events != exp { rec.report(P_C05, "a-empty-layout-not-identity", None, &full_path, &|| format!("empty layout: {} gave {}", inp.short(), events_str(&r.events))); }
            }
          }

          // ---- observable consistency of the reference firing rule (C03 / C08(d) / taint)
          let mut contradiction = false;
          if press && acted == Some(true) {
            match &firing {
              Firing::Certain(mi) => {
                let m = &ms[*mi];
                let mut bad: Vec<(&'static str, String)> = vec![];
                for x in &m.to {
                  let ok = if is_mod(x) { down_sometime.contains(x) } else { pressed_in_step.contains(x) };
                  if !ok { bad.push(("output-not-pressed", format!("output key {} of the last-listed satisfied mapping {:?}->{:?} was not pressed; step output {}", x, m.from, m.to, events_str(&r.events)))); }
                  if m.repeat == Repeat::Normal && !out.contains(x) { bad.push(("normal-output-not-held", format!("output key {} of normal-repeat mapping {:?}->{:?} not held at the end of the step; step output {}", x, m.from, m.to, events_str(&r.events)))); }
                }
                for x in &pressed_in_step { if !m.to.contains(x) { bad.push(("other-key-pressed", format!("{} pressed although the mapping that must fire is {:?}->{:?}; step output {}", x, m.from, m.to, events_str(&r.events)))); } }
                if !bad.is_empty() { contradiction = true; }
                if !info.has_abs {
                  *ante.entry("C03_chord_fired").or_insert(0) += 1; nontrivial = true;
                  if !s.phys.is_empty() { *ante.entry("C03_chord_fired_from_nonrest").or_insert(0) += 1; }
                  for (c, d) in &bad {
                    let clause: &'static str = match *c { "output-not-pressed" => "output-not-pressed", "normal-output-not-held" => "normal-output-not-held", _ => "other-key-pressed" };
                    rec.report(P_C03, clause, None, &full_path, &|| d.clone());
                  }
                } else if m.from[..m.from.len() - 1].iter().any(|f| info.absorbable.contains(f)) {
                  *ante.entry("C08d_unabsorbed_modifier_counts").or_insert(0) += 1; nontrivial = true;
                  for (c, d) in &bad {
                    if *c == "normal-output-not-held" { continue; }
                    rec.report(P_C08, "d-modifier-does-not-count-again", None, &full_path, &|| format!("nothing is absorbed, yet {}", d));
                  }
                }
              }
              Firing::Nothing if !info.has_abs && !tainted => {
                if mentioned_by_e {
                  *ante.entry("C03_swallowed_press").or_insert(0) += 1; nontrivial = true;
                  if !r.events.is_empty() { contradiction = true; rec.report(P_C03, "mentioned-but-emitted", None, &full_path, &|| format!("{} is mentioned by a mapping in effect and no mapping qualifies, yet the step emitted {}", k, events_str(&r.events))); }
                } else {
                  *ante.entry("C03_pass_through").or_insert(0) += 1;
                  if r.events.last() != Some(&Pressed(k)) || pressed_in_step.len() != 1 { contradiction = true; rec.report(P_C03, "pass-through", None, &full_path, &|| format!("no mapping qualifies for {}: expected it passed through as the last (only) press, got {}", k, events_str(&r.events))); }
                }
              }
              _ => {}
            }
          }

          // ---- C07
          if want(P_C07) {
            if let Some(mi) = certain_fired_r.filter(|_| no_other_pressed_r) {
              let m = &ms[mi];
              if m.repeat != Repeat::Normal {
                *ante.entry("C07_norepeat_fired").or_insert(0) += 1; nontrivial = true;
                if !s.out.is_empty() { *ante.entry("C07_norepeat_fired_with_keys_held").or_insert(0) += 1; }
                if out.iter().any(|x| !is_mod(x)) { rec.report(P_C07, "repeatable-key-held-after-norepeat", None, &full_path, &|| format!("after firing no-repeat mapping {:?}->{:?} held={:?}; step output {}", m.from, m.to, out, events_str(&r.events))); }
                for x in &m.to {
                  let ok = if is_mod(x) { down_sometime.contains(x) } else { pressed_in_step.contains(x) };
                  if !ok { rec.report(P_C07, "output-not-pressed", None, &full_path, &|| format!("output {} of no-repeat mapping {:?}->{:?} never pressed; step output {}", x, m.from, m.to, events_str(&r.events))); }
                }
              }
            }
          }
          if press && acted_r != Some(false) {
            mon.nr = match certain_fired_r.filter(|_| no_other_pressed_r) { Some(mi) => ms[mi].repeat != Repeat::Normal, None => false };
          }
          if want(P_C07) && mon.nr && !(press && acted_r != Some(false)) {
            *ante.entry("C07_steps_while_nr").or_insert(0) += 1;
            if out.iter().any(|x| !is_mod(x)) { rec.report(P_C07, "key-held-again", None, &full_path, &|| format!("{} after a no-repeat firing made {:?} held; step output {}", inp.short(), out, events_str(&r.events))); }
          }

          // ---- C08(a), (c)
          if want(P_C08) && press && acted != Some(false) {
            for (m_abs, t) in &abs_relevant {
              for &i in &obs_fired {
                if ms[i].from.contains(m_abs) { rec.report(P_C08, "a-fired-mapping-requiring-absorbed-modifier", stacked_sig, &full_path, &|| format!("press of {} fired {:?}->{:?} which requires {} absorbed under trigger {}; step output {}", k, ms[i].from, ms[i].to, m_abs, t, events_str(&r.events))); }
              }
            }
          }
          if let Some((mi, stage)) = s.mon.refire {
            let m = &ms[mi as usize];
            let t = *m.from.last().unwrap();
            mon.refire = None;
            if stage == 0 && !press && k == t && acted == Some(true) { mon.refire = Some((mi, 1)); }
            else if stage == 1 && press && k == t && acted == Some(true) {
              *ante.entry("C08c_trigger_repressed").or_insert(0) += 1; nontrivial = true;
              if want(P_C08) {
                let ok = m.to.iter().all(|x| if is_mod(x) { down_sometime.contains(x) } else { pressed_in_step.contains(x) }) && pressed_in_step.iter().all(|x| m.to.contains(x));
                if !ok { rec.report(P_C08, "c-trigger-repress-does-not-refire", stacked_sig, &full_path, &|| format!("re-press of trigger {} right after {:?}->{:?} (absorbing {:?}) fired did not fire it again; step output {}", t, m.from, m.to, m.absorbing, events_str(&r.events))); }
              }
            }
          }
          // ---- absorption monitors
          if press && acted != Some(false) {
            // stacked bit (signature of the recorded C08 corner): a non-key-producing absorbing mapping may fire
            // from trigger k while another modifier absorbed under a different trigger is still held
            if q_phys.iter().any(|&i| !ms[i].absorbing.is_empty() && !key_producing(&ms[i])) && !abs_relevant.is_empty() { mon.stacked = true; }
            mon.abs.retain(|(m_, _)| *m_ != k);
            for &i in &q_phys { for a in &ms[i].absorbing { if phys.contains(a) { insert_sorted(&mut mon.maybe_abs, a); } } }
            if let Some(mi) = certain_fired {
              let m = &ms[mi];
              // certain only when the observation does not contradict it
              if !contradiction && !m.absorbing.is_empty() {
                for a in &m.absorbing { if phys.contains(a) { mon.abs.retain(|(m_, _)| m_ != a); insert_sorted(&mut mon.abs, &(*a, k)); } }
                mon.refire = Some((mi as u16, 0));
                *ante.entry("C08_absorbing_mapping_fired").or_insert(0) += 1;
              }
            }
          }
          if press && acted == Some(false) { /* ignored duplicate press: M stays absorbed */ }
          if !press {
            mon.abs.retain(|(m_, _)| *m_ != k);
            remove_sorted(&mut mon.maybe_abs, &k);
          }
          if mon.abs.is_empty() { mon.stacked = false; }

          // ---- C09
          if want(P_C09) {
            let rep = &r.repeat;
            let mut allowed: Vec<ResultingRepeat> = vec![];
            let mut allow_ignored = false;
            match acted_r {
              Some(false) => { allow_ignored = true; }
              Some(true) | None => {
                if acted_r.is_none() { allow_ignored = true; }
                if !press { allowed.push(ResultingRepeat::Disabled); }
                else {
                  match (&firing_r, certain_fired_r.filter(|_| no_other_pressed_r)) {
                    (Firing::Nothing, _) => allowed.push(ResultingRepeat::Disabled),
                    (_, Some(mi)) => allowed.push(repeat_of(&ms[mi])),
                    // which mapping fired is not fixed by any statement here (or another mapping observably fired,
                    // which is C03's finding): any candidate's instruction is accepted
                    (_, None) => { allowed.push(ResultingRepeat::Disabled); for &i in &q_phys { allowed.push(repeat_of(&ms[i])); } }
                  }
                }
              }
            }
            let ok = allowed.contains(rep) || (allow_ignored && *rep == ResultingRepeat::NoChange && r.events.is_empty());
            if matches!(rep, ResultingRepeat::Repeating { .. }) { *ante.entry("C09_repeating_issued").or_insert(0) += 1; nontrivial = true; }
            if acted_r == Some(false) { *ante.entry("C09_ignored_events").or_insert(0) += 1; }
            if !ok {
              let clause: &'static str = if acted_r == Some(false) { "ignored-event-changes-repeat-or-emits" } else if matches!(rep, ResultingRepeat::NoChange) { "acted-event-leaves-repeat-unchanged" } else { "wrong-repeat-instruction" };
              rec.report(P_C09, clause, None, &full_path, &|| format!("{} (acted={:?}) returned repeat {} with {}; allowed {:?}{}", inp.short(), acted_r, repeat_json(rep), events_str(&r.events), allowed.iter().map(repeat_json).collect::<Vec<_>>(), if allow_ignored { " or (no events, NoChange)" } else { "" }));
            }
          }

          // ---- taint
          mon.taint = tainted || contradiction;
          // at rest every monitor starts over (what is held there is C01's business)
          if phys.is_empty() { mon = Mon::default(); }
        }
      }

      // ---- state invariants
      if phys.is_empty() {
        if !out.is_empty() {
          rec.report(P_C01, "stuck", None, &full_path, &|| format!("nothing physically held but {:?} held on the virtual keyboard", out));
          rec.report(P_C06, "rest-with-keys-held", None, &full_path, &|| format!("at rest but {:?} held on the virtual keyboard", out));
        }
      }
      if want(P_C02) {
        for x in &out {
          let just = phys.contains(x) || ms.iter().any(|m| m.to.contains(x) && m.from.iter().all(|f| phys.contains(f)));
          if !just { rec.report(P_C02, "a-unjustified-output-key", None, &full_path, &|| format!("{} held on output; physically held {:?}; no mapping with all trigger keys held outputs it", x, phys)); }
        }
        for x in &info.swallowed {
          if phys.contains(x) { *ante.entry("C02b_swallowed_key_physically_held").or_insert(0) += 1; nontrivial = true; }
          if out.contains(x) { rec.report(P_C02, "b-swallowed-key-leaks", None, &full_path, &|| format!("{} has a single-key mapping, occurs in no output, yet is held on the virtual keyboard", x)); }
        }
        if !info.has_abs {
          if !mon.taint {
            for &i in &mon.e {
              *ante.entry("C02d_mapping_in_effect").or_insert(0) += 1; nontrivial = true;
              for f in &ms[i as usize].from {
                if out.contains(f) && !mon.e.iter().any(|&j| ms[j as usize].to.contains(f)) {
                  rec.report(P_C02, "d-trigger-key-not-consumed", None, &full_path, &|| format!("trigger key {} of mapping {:?}->{:?} in effect is held on output (held={:?}) and no mapping in effect outputs it", f, ms[i as usize].from, ms[i as usize].to, out));
                }
              }
            }
          }
        } else {
          // observable under-approximation of "in effect": a Normal mapping whose private, non-physical output key is down
          for (i, m) in ms.iter().enumerate() {
            if m.repeat != Repeat::Normal { continue; }
            if !info.private_out[i].iter().any(|x| !is_mod(x) && !alphabet.contains(x) && out.contains(x)) { continue; }
            *ante.entry("C02d_mapping_in_effect").or_insert(0) += 1; nontrivial = true;
            for f in &m.from {
              if out.contains(f) && !ms.iter().any(|m2| m2.to.contains(f) && m2.from.iter().all(|g| phys.contains(g))) {
                rec.report(P_C02, "d-trigger-key-not-consumed", None, &full_path, &|| format!("trigger key {} of mapping {:?}->{:?} (observably in effect) is held on output (held={:?})", f, m.from, m.to, out));
              }
            }
          }
        }
      }
      succs.push(Succ { ai: ai as u16, ns: PState { snap: mapper.verif_snapshot(), phys, out, mon }, events: r.events, repeat: repeat_json(&r.repeat) });
  }
  if nontrivial { loc.nontrivial_states += 1; }
  succs
}

pub fn explore(layout: &Layout, alphabet: &[KeyCode], opts: &Opts) -> LayoutResult {
  let mut res = LayoutResult::default();
  let info = layout_info(layout);
  let ms = &layout.mappings;
  let ninp = alphabet.len() * 2 + 1;
  let want = |p: u32| opts.props & p != 0;

  // Mapper::for_layout itself may panic (C14); that is a finding of the exploration
  let mapper = std::panic::catch_unwind(std::panic::AssertUnwindSafe(|| Mapper::for_layout(layout)));
  let mut mapper = match mapper {
    Ok(m) => m,
    Err(p) => { res.panic = Some((vec![], panic_text(&p))); res.complete = true; return res; }
  };

  let init = PState { snap: mapper.verif_snapshot(), phys: vec![], out: vec![], mon: Mon::default() };
  let init_fp = mapper.verif_fingerprint();
  let mut idx: HashMap<PState, u32> = HashMap::new();
  let mut states: Vec<PState> = vec![init.clone()];
  let mut parent: Vec<(u32, u16)> = vec![(0, u16::MAX)];
  let mut depth_of: Vec<u32> = vec![0];
  idx.insert(init, 0);
  let mut queue: VecDeque<u32> = VecDeque::new();
  queue.push_back(0);
  let keep_graph = want(P_C06);
  let mut trans: Vec<u32> = if keep_graph { vec![u32::MAX; ninp] } else { vec![] };
  let mut osig: Vec<u32> = if keep_graph { vec![0; ninp] } else { vec![] };
  let mut out_intern: HashMap<(Vec<Event>, Value), u32> = HashMap::new();
  let mut last_out: Vec<u32> = vec![0]; // interned output of the transition that discovered the state (conformance)
  let mut viols: Vec<Viol> = vec![];
  let mut ante: BTreeMap<&'static str, u64> = BTreeMap::new();
  let mut complete = true;
  let mut stopped = false;

  let inp_of = |ai: usize| -> Inp {
    if ai == ninp - 1 { Inp::ReleaseAll } else if ai % 2 == 0 { Inp::Press(alphabet[ai / 2]) } else { Inp::Release(alphabet[ai / 2]) }
  };
  let path_of = |parent: &Vec<(u32, u16)>, mut i: u32| -> Vec<Inp> {
    let mut p = vec![];
    while parent[i as usize].1 != u16::MAX { p.push(inp_of(parent[i as usize].1 as usize)); i = parent[i as usize].0; }
    p.reverse();
    p
  };

  let cx = Cx { layout, info: &info, alphabet, opts, ninp };
  let mut origins: Vec<(u32, u16)> = vec![];
  let mut level: Vec<u32> = vec![0];
  let inner_threads = opts.inner_threads.max(1);
  'bfs: while !level.is_empty() {
    if depth_of[level[0] as usize] >= opts.max_depth { complete = false; res.depth_capped = true; break 'bfs; }
    let mut next_level: Vec<u32> = vec![];
    // blocks keep the memory for pending successors bounded; merging in state order makes the numbering of states,
    // the parents and therefore every counter-example independent of the number of threads
    let block = if inner_threads > 1 { 512 * inner_threads } else { 256 };
    for chunk in level.chunks(block) {
      let results: Vec<(Vec<Vec<Succ>>, Local)> = if inner_threads > 1 && chunk.len() >= 64 {
        let per = (chunk.len() + inner_threads - 1) / inner_threads;
        let parts: Vec<&[u32]> = chunk.chunks(per).collect();
        let states_ref = &states;
        let cx_ref = &cx;
        std::thread::scope(|sc| {
          let hs: Vec<_> = parts.iter().map(|part| sc.spawn(move || {
            let mut m = Mapper::for_layout(cx_ref.layout);
            let mut loc = Local::default();
            let mut out = Vec::with_capacity(part.len());
            for &si in part.iter() { if loc.panic.is_some() { break; } out.push(expand_state(cx_ref, &mut m, si, &states_ref[si as usize], &mut loc)); }
            (out, loc)
          })).collect();
          hs.into_iter().map(|h| h.join().expect("worker")).collect()
        })
      } else {
        let mut loc = Local::default();
        let mut out = Vec::with_capacity(chunk.len());
        for &si in chunk.iter() { if loc.panic.is_some() { break; } let s = states[si as usize].clone(); out.push(expand_state(&cx, &mut mapper, si, &s, &mut loc)); }
        vec![(out, loc)]
      };
      // ---- merge, in state order
      let mut ci = 0usize;
      for (outs, loc) in results {
        res.transitions += loc.transitions; res.nontrivial_states += loc.nontrivial_states;
        for (k, v) in loc.ante { *ante.entry(k).or_insert(0) += v; }
        for (v, o) in loc.viols.into_iter().zip(loc.origins.into_iter()) {
          match viols.iter().position(|g| g.prop == v.prop && g.clause == v.clause && g.sig == v.sig) {
            Some(gi) => { viols[gi].count += v.count; if o < origins[gi] { origins[gi] = o; viols[gi].detail = v.detail; } }
            None => { viols.push(v); origins.push(o); }
          }
        }
        if let Some((psi, pai, msg)) = loc.panic { let mut p = path_of(&parent, psi); p.push(inp_of(pai as usize)); res.panic = Some((p, msg)); complete = false; stopped = true; }
        for succs in outs {
          let si = chunk[ci]; ci += 1;
          for sc in succs {
            let ai = sc.ai as usize;
            let oid = { let key = (sc.events, sc.repeat); let n = out_intern.len() as u32 + 1; *out_intern.entry(key).or_insert(n) };
            let ni = match idx.get(&sc.ns) {
              Some(&ni) => Some(ni),
              None => {
                if states.len() < opts.max_states {
                  let ni = states.len() as u32;
                  idx.insert(sc.ns.clone(), ni);
                  states.push(sc.ns);
                  parent.push((si, ai as u16));
                  depth_of.push(depth_of[si as usize] + 1);
                  last_out.push(oid);
                  if keep_graph { trans.extend(std::iter::repeat(u32::MAX).take(ninp)); osig.extend(std::iter::repeat(0).take(ninp)); }
                  next_level.push(ni);
                  Some(ni)
                } else { complete = false; None }
              }
            };
            if keep_graph { if let Some(ni) = ni { trans[si as usize * ninp + ai] = ni; osig[si as usize * ninp + ai] = if ai == ninp - 1 { 0 } else { oid }; } }
          }
        }
      }
      if stopped { break 'bfs; }
      // violation first, cap second
      if opts.stop_prop != 0 && viols.iter().any(|v| v.prop == opts.stop_prop && !v.sig.map(|sg| opts.known.iter().any(|(p, ks)| *p == v.prop && ks == sg)).unwrap_or(false)) {
        stopped = true; complete = false; break 'bfs;
      }
      if !complete { break 'bfs; }
      if states.len() >= opts.max_states { break 'bfs; }
    }
    level = next_level;
  }
  // paths of the recorded violations: shortest history to the origin state plus the failing input
  for (v, o) in viols.iter_mut().zip(origins.iter()) { let mut p = path_of(&parent, o.0); p.push(inp_of(o.1 as usize)); v.path = p; }

  res.states = states.len();
  res.depth = *depth_of.iter().max().unwrap_or(&0) as usize;
  res.rest_states = states.iter().filter(|s| s.phys.is_empty()).count();
  res.complete = complete;
  res.stopped_on_violation = stopped;

  // ---- C06: coarsest bisimulation of the explored Mealy machine
  if want(P_C06) && complete {
    let nst = states.len();
    let mut phys_ids: HashMap<&Vec<KeyCode>, u32> = HashMap::new();
    let mut block: Vec<u32> = Vec::with_capacity(nst);
    for s in &states { let n = phys_ids.len() as u32; block.push(*phys_ids.entry(&s.phys).or_insert(n)); }
    // make the initial state's block id 0 is not needed; we compare with block[0]
    let mut nblocks = phys_ids.len();
    loop {
      let mut sigs: HashMap<Vec<u32>, u32> = HashMap::new();
      let mut newb: Vec<u32> = Vec::with_capacity(nst);
      let mut key: Vec<u32> = Vec::with_capacity(1 + 2 * ninp);
      for i in 0..nst {
        key.clear();
        key.push(block[i]);
        for a in 0..ninp {
          let t = trans[i * ninp + a];
          if t == u32::MAX { key.push(u32::MAX); key.push(0); } else { key.push(osig[i * ninp + a]); key.push(block[t as usize]); }
        }
        let n = sigs.len() as u32;
        let b = match sigs.get(&key) { Some(b) => *b, None => { sigs.insert(key.clone(), n); n } };
        newb.push(b);
      }
      let nb = sigs.len();
      block = newb;
      if nb == nblocks { break; }
      nblocks = nb;
    }
    res.blocks = nblocks;
    let mut distinct_rest: BTreeSet<String> = BTreeSet::new();
    let mut reported = 0;
    for i in 0..nst {
      if !states[i].phys.is_empty() { continue; }
      if distinct_rest.len() < 64 { mapper.verif_restore(&states[i].snap); distinct_rest.insert(mapper.verif_fingerprint()); }
      if block[i] != block[0] {
        let path = path_of(&parent, i as u32);
        if let Some(v) = viols.iter_mut().find(|v| v.prop == P_C06 && v.clause == "rest-state-not-equivalent-to-fresh") { v.count += 1; continue; }
        if reported > 0 { continue; }
        reported += 1;
        // distinguishing continuation: paired BFS from (i, 0)
        let word = distinguishing_word(&trans, &osig, ninp, i as u32, 0, 2_000_000).map(|w| w.into_iter().map(|a| inp_of(a)).collect::<Vec<_>>());
        mapper.verif_restore(&states[i].snap);
        let fp = mapper.verif_fingerprint();
        let detail = format!("rest state reached by [{}] answers [{}] differently from a fresh mapper; residual state {}", path.iter().map(|p| p.short()).collect::<Vec<_>>().join(" "), word.as_ref().map(|w| w.iter().map(|p| p.short()).collect::<Vec<_>>().join(" ")).unwrap_or("?".into()), fp);
        viols.push(Viol { prop: P_C06, clause: "rest-state-not-equivalent-to-fresh", sig: None, count: 1, path, detail, extra: json!({"continuation": word.map(|w| w.iter().map(|p| p.to_json()).collect::<Vec<_>>())}) });
      }
    }
    res.rest_structurally_distinct = distinct_rest.len();
    *ante.entry("C06_rest_states").or_insert(0) += res.rest_states as u64;
    *ante.entry("C06_rest_states_structurally_different_from_init").or_insert(0) += distinct_rest.iter().filter(|f| **f != init_fp).count() as u64;
  }

  // ---- conformance of the exploration itself (DESIGN §3.5): replay BFS histories on a fresh mapper
  {
    let maxd = res.depth as u32;
    let mut picks: Vec<u32> = vec![];
    let stride = opts.conformance_stride.max(1);
    for i in (0..states.len()).step_by(stride) { picks.push(i as u32); }
    let mut deepest = 0;
    for i in 0..states.len() { if depth_of[i] == maxd && deepest < 200 { picks.push(i as u32); deepest += 1; } }
    let mut vpaths: Vec<Vec<Inp>> = viols.iter().map(|v| v.path.clone()).collect();
    for i in picks {
      let path = path_of(&parent, i);
      let (fp, last) = replay_path(layout, &path);
      mapper.verif_restore(&states[i as usize].snap);
      let fp2 = mapper.verif_fingerprint();
      res.conformance_replayed += 1;
      if fp != fp2 { res.conformance_fail = Some(format!("history {:?}: fresh-mapper replay reaches {} but the snapshot-driven search recorded {}", path.iter().map(|p| p.short()).collect::<Vec<_>>(), fp, fp2)); break; }
      if i != 0 {
        if let Some((evs, rep)) = last {
          let key = (evs, rep);
          if out_intern.get(&key) != Some(&last_out[i as usize]) { res.conformance_fail = Some(format!("history {:?}: last step output differs between replay and search", path.iter().map(|p| p.short()).collect::<Vec<_>>())); break; }
        }
      }
      if res.samples.len() < opts.keep_samples && path.len() >= 2 && (i as usize) % 7 == 3 {
        res.samples.push(json!({"history": path.iter().map(|p| p.short()).collect::<Vec<_>>().join(" "), "held_after": states[i as usize].out.iter().map(|k| format!("{}", k)).collect::<Vec<_>>()}));
      }
    }
    for p in vpaths.drain(..) { let _ = replay_path(layout, &p); res.conformance_replayed += 1; }
  }

  res.viols = viols;
  res.antecedents = ante;
  res
}

fn panic_text(p: &Box<dyn std::any::Any + Send>) -> String {
  p.downcast_ref::<String>().cloned().or(p.downcast_ref::<&str>().map(|s| s.to_string())).unwrap_or_else(|| "panic".to_string())
}

/// Shortest input word on which states a and b of the explored Mealy machine differ.
fn distinguishing_word(trans: &[u32], osig: &[u32], ninp: usize, a: u32, b: u32, cap: usize) -> Option<Vec<usize>> {
  let mut seen: HashMap<(u32, u32), (u32, u16)> = HashMap::new(); // pair -> (parent pair index, input)
  let mut pairs: Vec<(u32, u32)> = vec![(a, b)];
  seen.insert((a, b), (u32::MAX, 0));
  let mut qi = 0;
  while qi < pairs.len() {
    let (x, y) = pairs[qi];
    for inp in 0..ninp {
      let tx = trans[x as usize * ninp + inp]; let ty = trans[y as usize * ninp + inp];
      let differs = (tx == u32::MAX) != (ty == u32::MAX) || (tx != u32::MAX && osig[x as usize * ninp + inp] != osig[y as usize * ninp + inp]);
      if differs {
        let mut w = vec![inp];
        let mut cur = qi as u32;
        loop { let (p, i) = seen[&pairs[cur as usize]]; if p == u32::MAX { break; } w.push(i as usize); cur = p; }
        w.reverse();
        return Some(w);
      }
      if tx == u32::MAX { continue; }
      if !seen.contains_key(&(tx, ty)) {
        if pairs.len() >= cap { return None; }
        seen.insert((tx, ty), (qi as u32, inp as u16));
        pairs.push((tx, ty));
      }
    }
    qi += 1;
  }
  None
}

/// Straight-line execution of a history on a fresh real mapper: (fingerprint, last step's output).
pub fn replay_path(layout: &Layout, path: &[Inp]) -> (String, Option<(Vec<Event>, Value)>) {
  let mut m = Mapper::for_layout(layout);
  let mut last = None;
  for p in path {
    let r = match p {
      Inp::Press(k) => m.step(Pressed(*k)),
      Inp::Release(k) => m.step(Released(*k)),
      Inp::ReleaseAll => StepResult { events: m.release_all(), repeat: ResultingRepeat::Disabled },
    };
    last = Some((r.events, repeat_json(&r.repeat)));
  }
  (m.verif_fingerprint(), last)
}

/// `tmverif replay <artefact>` for Engine A artefacts: prints every step's input and output.
pub fn replay_artefact(v: &Value) -> i32 {
  let layout: Layout = match serde_json::from_value(v["layout"].clone()) { Ok(l) => l, Err(e) => { eprintln!("bad layout in artefact: {}", e); return 2; } };
  let path: Vec<Inp> = v["history"].as_array().map(|a| a.iter().filter_map(Inp::from_json).collect()).unwrap_or_default();
  println!("property {} clause {}", v["property"], v["clause"]);
  println!("layout {}", serde_json::to_string(&layout).unwrap());
  let run = |words: &[Inp], m: &mut Mapper, label: &str| -> Vec<String> {
    let mut held: Vec<KeyCode> = vec![];
    let mut outs = vec![];
    for p in words {
      let r = match p {
        Inp::Press(k) => m.step(Pressed(*k)),
        Inp::Release(k) => m.step(Released(*k)),
        Inp::ReleaseAll => StepResult { events: m.release_all(), repeat: ResultingRepeat::Disabled },
      };
      for e in &r.events { match e { Pressed(x) => { if !held.contains(x) { held.push(*x); } } Released(x) => held.retain(|y| y != x) } }
      let line = format!("{} -> {} repeat={}", p.short(), events_str(&r.events), repeat_json(&r.repeat));
      println!("  {}{:<12} held={:?}", label, line, held);
      outs.push(line);
    }
    outs
  };
  let r = std::panic::catch_unwind(std::panic::AssertUnwindSafe(|| {
    let mut m = Mapper::for_layout(&layout);
    run(&path, &mut m, "");
    if let Some(c) = v["continuation"].as_array() {
      let cont: Vec<Inp> = c.iter().filter_map(Inp::from_json).collect();
      println!(" continuation on the mapper above:");
      let a = run(&cont, &mut m, "  ");
      println!(" same continuation on a fresh mapper:");
      let mut f = Mapper::for_layout(&layout);
      let b = run(&cont, &mut f, "  ");
      println!(" responses {}", if a == b { "EQUAL" } else { "DIFFER" });
    }
    println!("description: {}", v["description"].as_str().unwrap_or(""));
  }));
  if let Err(p) = r { println!("PANIC: {}", panic_text(&p)); }
  0
}
