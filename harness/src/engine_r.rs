// Engine R — the REAL driver on real descriptors, stepped deterministically.  DESIGN §4.3.
//
// Engine B explores the loop above the `Driver` seam.  What sits below it — RealDriver's
// mapping of errno values to Busy / End / Err, the byte decoding of the keyboard and
// tablet-switch readers, the real edge-triggered poll registry, the real writer — is run
// here, unmodified, by the hook `run_real_driver_on_fds`: the keyboard and the tablet
// switch are socket pairs, the virtual keyboard is a pipe.  A scenario is a list of steps
// (one write() of whole input_event records to one device) plus at most one fault (virtual
// keyboard full, virtual keyboard closed, a device failing with ECONNRESET).  The loop runs
// on its own thread; after each step the feeder waits until that thread is blocked in
// epoll_wait with both inputs drained (a state read from /proc/self/task/<tid>, not a
// time-out), then collects what was written.  So every scenario is one deterministic
// execution, and the families below enumerate all scenarios of a small grammar.
use crate::common::*;
use crate::key_transforms::Mapper;
use crate::keys::Event::{Pressed, Released};
use crate::keys::{Event, KeyCode, Layout};
#[cfg(ellbur_totalmapper_verif_real)] use crate::remapping_loop::verif_hooks::run_real_driver_on_fds;
#[cfg(not(ellbur_totalmapper_verif_real))] fn run_real_driver_on_fds(_k: RawFd, _w: RawFd, _t: Option<RawFd>, _l: Layout, _v: bool) -> Result<(), String> { Err("hook not built".into()) }
pub const HOOK_BUILT: bool = cfg!(ellbur_totalmapper_verif_real);
use num_traits::FromPrimitive;
use serde_json::{json, Value};
use std::collections::{BTreeMap, HashSet};
use std::os::unix::io::RawFd;
use std::sync::mpsc;
use std::time::{Duration, Instant};

pub type Rec = (u16, u16, i32);
pub const EV_SYN: u16 = 0; pub const EV_KEY: u16 = 1; pub const EV_MSC: u16 = 4; pub const EV_SW: u16 = 5; pub const EV_LED: u16 = 17;
pub const SYN: Rec = (EV_SYN, 0, 0);

#[derive(Clone, Copy, Debug, PartialEq, Eq, Hash)]
pub enum Dev { K, T }
#[derive(Clone, Debug, PartialEq, Eq, Hash)]
pub struct Step { pub dev: Dev, pub recs: Vec<Rec> }
#[derive(Clone, Debug, PartialEq, Eq, Hash)]
pub enum Fault { None, OutFullBefore(usize), OutClosedBefore(usize), ResetAfter(Dev, usize),
  /// from step `before` on the virtual keyboard (a one-page pipe nobody reads any more) has room for exactly `free` more bytes:
  /// a report that fits is written, the first one that does not fit is refused as a whole (EAGAIN; writes <= PIPE_BUF are atomic)
  OutNearlyFull { before: usize, free: usize } }

pub struct RealRun {
  pub per_step_out: Vec<Vec<Rec>>,
  /// Some(result) once the loop returned, with the index of the step after which it did (steps.len() = at the final reset)
  pub returned: Option<(Result<(), String>, usize)>,
  /// the loop was observed blocked in epoll_wait with nothing to read although a fault had been delivered
  pub quiescent_after_fault: bool,
  pub machinery: Option<String>,
  /// OutNearlyFull: everything that reached the virtual keyboard from the fault on (read at the very end)
  pub after_fault_out: Vec<Rec>,
  /// the loop was found blocked in epoll_wait with input it had been notified about still unread (after this step)
  pub stuck_unread: Option<usize>,
}

fn rec_bytes(r: &Rec) -> Vec<u8> {
  let mut b = vec![0u8; 16];
  b.extend_from_slice(&r.0.to_ne_bytes()); b.extend_from_slice(&r.1.to_ne_bytes()); b.extend_from_slice(&r.2.to_ne_bytes());
  b
}
fn decode(bytes: &[u8]) -> Vec<Rec> {
  bytes.chunks(24).filter(|c| c.len() == 24).map(|c| (u16::from_ne_bytes([c[16], c[17]]), u16::from_ne_bytes([c[18], c[19]]), i32::from_ne_bytes([c[20], c[21], c[22], c[23]]))).collect()
}
pub fn key_rec(e: &Event) -> Rec { match e { Pressed(k) => (EV_KEY, (*k as i32 as u16), 1), Released(k) => (EV_KEY, (*k as i32 as u16), 0) } }
fn report(evs: &[Event]) -> Vec<Rec> { let mut v: Vec<Rec> = evs.iter().map(key_rec).collect(); v.push(SYN); v }

fn fionread(fd: RawFd) -> i32 { let mut n: libc::c_int = 0; unsafe { libc::ioctl(fd, libc::FIONREAD, &mut n); } n }
fn set_nonblock(fd: RawFd) { unsafe { let fl = libc::fcntl(fd, libc::F_GETFL); libc::fcntl(fd, libc::F_SETFL, fl | libc::O_NONBLOCK); } }
fn socketpair() -> (RawFd, RawFd) { let mut sv = [0 as libc::c_int; 2]; let r = unsafe { libc::socketpair(libc::AF_UNIX, libc::SOCK_STREAM, 0, sv.as_mut_ptr()) }; assert!(r == 0, "socketpair"); (sv[0], sv[1]) }
fn write_all(fd: RawFd, b: &[u8]) -> bool { let n = unsafe { libc::write(fd, b.as_ptr() as *const libc::c_void, b.len()) }; n == b.len() as isize }
fn drain(fd: RawFd) -> Vec<u8> {
  let mut out = vec![]; let mut buf = [0u8; 4096];
  loop { let n = unsafe { libc::read(fd, buf.as_mut_ptr() as *mut libc::c_void, buf.len()) }; if n <= 0 { break; } out.extend_from_slice(&buf[..n as usize]); }
  out
}

/// (blocked in epoll_wait?, voluntary context switches) of a thread of this process
fn thread_state(tid: i32) -> Option<(bool, u64)> {
  let sc = std::fs::read_to_string(format!("/proc/self/task/{}/syscall", tid)).ok()?;
  let nr = sc.split_whitespace().next()?.to_string();
  let blocked = nr == "232" || nr == "281" || nr == "441"; // epoll_wait, epoll_pwait, epoll_pwait2 (x86_64)
  let st = std::fs::read_to_string(format!("/proc/self/task/{}/status", tid)).ok()?;
  let v = st.lines().find(|l| l.starts_with("voluntary_ctxt_switches"))?.split_whitespace().nth(1)?.parse::<u64>().ok()?;
  Some((blocked, v))
}

enum Wait { Quiescent, Returned(Result<(), String>), Machinery(String),
  /// blocked in epoll_wait (woken and blocked again) although bytes it was notified about are still unread: with an
  /// edge-triggered registration it will not be told again - the loop went back to waiting with input unread
  StuckUnread }

/// `min_vcs`: the loop thread must have blocked again at least this many times in total (an event that wakes it was
/// delivered since the count was taken), so that "not yet scheduled after the wake-up" is never mistaken for rest
fn wait_settled(tid: i32, inputs: &[RawFd], rx: &mpsc::Receiver<Result<(), String>>, min_vcs: u64) -> Wait {
  let t0 = Instant::now();
  loop {
    if let Ok(r) = rx.try_recv() { return Wait::Returned(r); }
    if inputs.iter().all(|fd| fionread(*fd) == 0) {
      if let Some((true, v1)) = thread_state(tid) {
        std::thread::sleep(Duration::from_micros(300));
        if let Ok(r) = rx.try_recv() { return Wait::Returned(r); }
        if inputs.iter().all(|fd| fionread(*fd) == 0) { if let Some((true, v2)) = thread_state(tid) { if v1 == v2 && v1 >= min_vcs { return Wait::Quiescent; } } }
      }
    }
    // at rest in epoll_wait, demonstrably woken and blocked again, yet input is unread - and this for a full second
    if t0.elapsed() > Duration::from_millis(1000) && inputs.iter().any(|fd| fionread(*fd) > 0) {
      if let Some((true, v1)) = thread_state(tid) { if v1 >= min_vcs && min_vcs > 0 {
        std::thread::sleep(Duration::from_millis(20));
        if let Some((true, v2)) = thread_state(tid) { if v1 == v2 && inputs.iter().any(|fd| fionread(*fd) > 0) { return Wait::StuckUnread; } }
      } }
    }
    if t0.elapsed() > Duration::from_secs(30) { return Wait::Machinery("the loop thread neither returned nor came to rest in epoll_wait within 30 s".into()); }
    std::thread::sleep(Duration::from_micros(50));
  }
}

pub fn run_real(layout: &Layout, steps: &[Step], fault: &Fault) -> RealRun {
  let (k_loop, k_feed) = socketpair(); let (t_loop, t_feed) = socketpair();
  set_nonblock(k_loop); set_nonblock(t_loop);
  let mut p = [0 as libc::c_int; 2]; assert!(unsafe { libc::pipe2(p.as_mut_ptr(), libc::O_NONBLOCK) } == 0, "pipe2");
  let (out_r, out_w) = (p[0], p[1]);
  // one byte the feeder never reads: closing the feeder's end then makes the loop's next read fail with ECONNRESET once its data is drained
  write_all(k_loop, b"x"); write_all(t_loop, b"x");
  let (tx_tid, rx_tid) = mpsc::channel::<i32>(); let (tx, rx) = mpsc::channel::<Result<(), String>>();
  let l2 = layout.clone();
  std::thread::spawn(move || {
    let _ = tx_tid.send(unsafe { libc::syscall(libc::SYS_gettid) } as i32);
    let r = run_real_driver_on_fds(k_loop, out_w, Some(t_loop), l2, false);
    let _ = tx.send(r);
  });
  let tid = rx_tid.recv().unwrap();
  let inputs = [k_loop, t_loop];
  let mut run = RealRun { per_step_out: vec![], returned: None, quiescent_after_fault: false, machinery: None, after_fault_out: vec![], stuck_unread: None };
  let mut out_near: Option<usize> = None; // junk bytes in front of what the loop wrote
  let mut fault_delivered = false; let mut out_closed = false; let mut out_full = false; let mut k_closed = false; let mut t_closed = false;
  let vcs = || thread_state(tid).map(|s| s.1).unwrap_or(0);
  let mut settle = |run: &mut RealRun, at: usize, fault_delivered: bool, min_vcs: u64| -> bool {
    match wait_settled(tid, &inputs, &rx, min_vcs) {
      Wait::Quiescent => { if fault_delivered { run.quiescent_after_fault = true; } true }
      Wait::Returned(r) => { run.returned = Some((r, at)); false }
      Wait::Machinery(m) => { run.machinery = Some(m); false }
      Wait::StuckUnread => { run.stuck_unread = Some(at); false }
    }
  };
  let mut alive = settle(&mut run, 0, false, 0);
  for (i, st) in steps.iter().enumerate() {
    if !alive { break; }
    match fault {
      // from here on the virtual keyboard is full and stays full: every later write fails with EAGAIN
      Fault::OutFullBefore(j) if *j == i => { let junk = [0xEEu8; 1024]; while write_all(out_w, &junk) {} let one = [0xEEu8; 1]; while write_all(out_w, &one) {} out_full = true; }
      Fault::OutClosedBefore(j) if *j == i => { unsafe { libc::close(out_r); } out_closed = true; }
      Fault::OutNearlyFull { before, free } if *before == i => {
        // the pipe is empty here (drained after the previous step): shrink it to one page and fill all but `free` bytes
        let r = unsafe { libc::fcntl(out_w, libc::F_SETPIPE_SZ, 4096) };
        if r < 0 { run.machinery = Some(format!("F_SETPIPE_SZ: {}", std::io::Error::last_os_error())); break; }
        let junk = vec![0xEEu8; 4096 - (*free).min(4096)];
        if !junk.is_empty() && !write_all(out_w, &junk) { run.machinery = Some("could not pre-fill the virtual keyboard pipe".into()); break; }
        out_near = Some(junk.len());
      }
      _ => {}
    }
    let bytes: Vec<u8> = st.recs.iter().flat_map(|r| rec_bytes(r)).collect();
    let fd = if st.dev == Dev::K { k_feed } else { t_feed };
    let v0 = vcs();
    if !write_all(fd, &bytes) { run.machinery = Some("feeder write failed".into()); break; }
    alive = settle(&mut run, i, fault_delivered, v0 + 1);
    let got = if out_closed || out_full || out_near.is_some() { vec![] } else { drain(out_r) };
    if let Fault::OutFullBefore(j) | Fault::OutClosedBefore(j) = fault { if *j == i { fault_delivered = true; } }
    run.per_step_out.push(decode(&got));
    if run.machinery.is_some() { break; }
    if let Fault::ResetAfter(d, j) = fault { if *j == i && alive {
      let v0 = vcs();
      unsafe { libc::close(if *d == Dev::K { k_feed } else { t_feed }); }
      if *d == Dev::K { k_closed = true; } else { t_closed = true; }
      fault_delivered = true;
      alive = settle(&mut run, i, true, v0 + 1);
    } }
  }
  if alive && run.machinery.is_none() {
    // the end of every scenario: the keyboard fails with ECONNRESET (the loop cannot outlive this in any correct version)
    let v0 = vcs();
    if !k_closed { unsafe { libc::close(k_feed); } k_closed = true; }
    match wait_settled(tid, &inputs, &rx, v0 + 1) {
      Wait::Returned(r) => { run.returned = Some((r, steps.len())); alive = false; }
      Wait::Quiescent => { run.quiescent_after_fault = true; }
      Wait::Machinery(m) => { run.machinery = Some(m); }
      Wait::StuckUnread => { run.stuck_unread = Some(steps.len()); }
    }
    if !out_closed && !out_full && out_near.is_none() { let tail = drain(out_r); if !tail.is_empty() { run.per_step_out.push(decode(&tail)); } }
  }
  if let Some(junk) = out_near { let all = drain(out_r); run.after_fault_out = decode(&all[junk.min(all.len())..]); }
  // a loop thread that never returned keeps its descriptors (they are leaked on purpose so that no later scenario can wake it)
  if !alive {
    unsafe { libc::close(k_loop); libc::close(t_loop); libc::close(out_w); if !out_closed { libc::close(out_r); } if !k_closed { libc::close(k_feed); } if !t_closed { libc::close(t_feed); } }
  }
  run
}

/// What the loop does when the keyboard hangs up with NOTHING unread.  The keyboard is the read end of a pipe; closing the
/// write end makes it poll as hung up but not readable (EPOLLHUP without EPOLLIN) - the way an unplugged evdev node with an
/// empty queue polls.  Whatever the notification carries, the loop has been notified about the keyboard and must go and
/// read it (the read is what tells it that the device is gone); a loop that goes back to waiting without a read waits for ever.
/// A pipe answers the read with end-of-file, which evdev never does and on which the reader of this tool spins; so the
/// probe only observes WHICH of the two happens (thread back in epoll_wait / thread busy reading - states read from /proc),
/// then swaps a reset socket under the descriptor so that the next read fails and the loop ends.
pub enum HangupObs { ReadAttempted, WentBackToWaiting, Machinery(String) }

pub fn hangup_probe(layout: &Layout) -> HangupObs {
  let mut p = [0 as libc::c_int; 2]; assert!(unsafe { libc::pipe2(p.as_mut_ptr(), libc::O_NONBLOCK) } == 0, "pipe2");
  let (k_loop, k_feed) = (p[0], p[1]);
  let mut q = [0 as libc::c_int; 2]; assert!(unsafe { libc::pipe2(q.as_mut_ptr(), libc::O_NONBLOCK) } == 0, "pipe2");
  let (out_r, out_w) = (q[0], q[1]);
  let (tx_tid, rx_tid) = mpsc::channel::<i32>(); let (tx, rx) = mpsc::channel::<Result<(), String>>();
  let l2 = layout.clone();
  std::thread::spawn(move || {
    let _ = tx_tid.send(unsafe { libc::syscall(libc::SYS_gettid) } as i32);
    let r = run_real_driver_on_fds(k_loop, out_w, None, l2, false);
    let _ = tx.send(r);
  });
  let tid = rx_tid.recv().unwrap();
  let inputs = [k_loop];
  match wait_settled(tid, &inputs, &rx, 0) { Wait::Quiescent => {}, Wait::Returned(r) => return HangupObs::Machinery(format!("the loop returned {:?} before anything happened", r)), Wait::Machinery(m) => return HangupObs::Machinery(m), Wait::StuckUnread => return HangupObs::Machinery("input left unread".into()) }
  // one ordinary key event first: the pipe does work as a keyboard
  let v0 = thread_state(tid).map(|s| s.1).unwrap_or(0);
  let bytes: Vec<u8> = [kp(KeyCode::A, true), SYN].iter().flat_map(|r| rec_bytes(r)).collect();
  if !write_all(k_feed, &bytes) { return HangupObs::Machinery("feeder write failed".into()); }
  match wait_settled(tid, &inputs, &rx, v0 + 1) { Wait::Quiescent => {}, Wait::Returned(r) => return HangupObs::Machinery(format!("the loop returned {:?} after one key event", r)), Wait::Machinery(m) => return HangupObs::Machinery(m), Wait::StuckUnread => return HangupObs::Machinery("input left unread".into()) }
  let first = decode(&drain(out_r));
  if first.is_empty() { return HangupObs::Machinery("the key event sent through the pipe produced no output".into()); }
  // hang up
  let v1 = thread_state(tid).map(|s| s.1).unwrap_or(0);
  unsafe { libc::close(k_feed); }
  let t0 = Instant::now(); let mut busy_since: Option<Instant> = None; let mut busy_samples = 0u32;
  let obs = loop {
    if rx.try_recv().is_ok() { break HangupObs::ReadAttempted; } // it read, and made something of the end-of-file
    match thread_state(tid) {
      Some((true, v)) if v >= v1 + 1 => {
        std::thread::sleep(Duration::from_micros(300));
        if let Some((true, v2)) = thread_state(tid) { if v2 == v { break HangupObs::WentBackToWaiting; } }
        busy_since = None; busy_samples = 0;
      }
      Some((true, _)) => { busy_since = None; busy_samples = 0; } // not woken yet
      Some((false, _)) => {
        if busy_since.is_none() { busy_since = Some(Instant::now()); }
        busy_samples += 1;
        if busy_samples >= 40 && busy_since.unwrap().elapsed() > Duration::from_millis(20) { break HangupObs::ReadAttempted; }
      }
      None => break HangupObs::Machinery("cannot read the loop thread's state".into()),
    }
    if t0.elapsed() > Duration::from_secs(30) { break HangupObs::Machinery("hang-up probe: no stable observation within 30 s".into()); }
    std::thread::sleep(Duration::from_micros(100));
  };
  // end the loop thread if it is reading: a socket whose next read fails with ECONNRESET takes the descriptor's place
  if let HangupObs::ReadAttempted = obs {
    let (a, b) = socketpair(); set_nonblock(a); write_all(a, b"x"); unsafe { libc::close(b); libc::dup2(a, k_loop); libc::close(a); }
    let _ = rx.recv_timeout(Duration::from_secs(5));
  }
  unsafe { libc::close(out_r); }
  obs
}

/// C11 below the Driver seam: what the real driver does with a wait that a signal interrupts while a repeat is pending.
/// The loop thread runs on the machine's clock here (hook clock_use_real_time); a layout with a Special repeat of `delay_ms`
/// fires, the thread is observed blocked in epoll_wait and the time-out it armed is read from /proc/<tid>/syscall; the
/// feeder then really sleeps `pause_ms` and sends SIGUSR1 to that thread (EINTR).  When the thread is blocked again, the
/// time-out it armed now must not reach beyond the chord's due time: at most the first time-out minus the pause (2 ms of
/// slack for rounding).  The bound is one-sided - a loaded machine only makes the re-armed time-out SMALLER - so no
/// tolerance is involved and a clean tree cannot fail it.
pub enum InterruptObs { Rearmed { first_ms: i64, after_ms: i64, pause_ms: u64 }, Machinery(String), Unavailable(String) }

extern "C" fn noop_handler(_: libc::c_int) {}

fn epoll_timeout_ms(tid: i32) -> Option<i64> {
  let sc = std::fs::read_to_string(format!("/proc/self/task/{}/syscall", tid)).ok()?;
  let f: Vec<&str> = sc.split_whitespace().collect();
  if f.len() < 5 || f[0] != "232" { return None; } // epoll_wait(epfd, events, maxevents, timeout): the 4th argument
  let v = u64::from_str_radix(f[4].trim_start_matches("0x"), 16).ok()?;
  Some(v as u32 as i32 as i64)
}

pub fn interrupt_probe(delay_ms: i32, pause_ms: u64, signals: usize) -> InterruptObs {
  use KeyCode::*;
  let layout = Layout { mappings: vec![crate::keys::Mapping { from: vec![B], to: vec![B], repeat: crate::keys::Repeat::Special { keys: vec![C], delay_ms, interval_ms: 1000 }, absorbing: vec![] }] };
  unsafe {
    let mut sa: libc::sigaction = std::mem::zeroed();
    sa.sa_sigaction = noop_handler as usize; sa.sa_flags = 0; libc::sigemptyset(&mut sa.sa_mask);
    if libc::sigaction(libc::SIGUSR1, &sa, std::ptr::null_mut()) != 0 { return InterruptObs::Unavailable("sigaction failed".into()); }
  }
  let (k_loop, k_feed) = socketpair(); set_nonblock(k_loop);
  let mut p = [0 as libc::c_int; 2]; assert!(unsafe { libc::pipe2(p.as_mut_ptr(), libc::O_NONBLOCK) } == 0, "pipe2");
  let (out_r, out_w) = (p[0], p[1]);
  write_all(k_loop, b"x");
  let (tx_tid, rx_tid) = mpsc::channel::<i32>(); let (tx, rx) = mpsc::channel::<Result<(), String>>();
  std::thread::spawn(move || {
    let _ = tx_tid.send(unsafe { libc::syscall(libc::SYS_gettid) } as i32);
    crate::remapping_loop::verif_hooks::clock_use_real_time(true);
    let r = run_real_driver_on_fds(k_loop, out_w, None, layout, false);
    let _ = tx.send(r);
  });
  let tid = rx_tid.recv().unwrap();
  let inputs = [k_loop];
  let finish = |obs: InterruptObs| -> InterruptObs { unsafe { libc::close(k_feed); } let _ = rx.recv_timeout(Duration::from_secs(5)); unsafe { libc::close(out_r); } obs };
  match wait_settled(tid, &inputs, &rx, 0) { Wait::Quiescent => {}, Wait::Returned(r) => return InterruptObs::Machinery(format!("the loop returned {:?} at once", r)), Wait::Machinery(m) => return finish(InterruptObs::Machinery(m)), Wait::StuckUnread => return finish(InterruptObs::Machinery("input left unread".into())) }
  let v0 = thread_state(tid).map(|s| s.1).unwrap_or(0);
  let bytes: Vec<u8> = [kp(B, true), SYN].iter().flat_map(|r| rec_bytes(r)).collect();
  if !write_all(k_feed, &bytes) { return finish(InterruptObs::Machinery("feeder write failed".into())); }
  match wait_settled(tid, &inputs, &rx, v0 + 1) { Wait::Quiescent => {}, Wait::Returned(r) => return InterruptObs::Machinery(format!("the loop returned {:?} after one key event", r)), Wait::Machinery(m) => return finish(InterruptObs::Machinery(m)), Wait::StuckUnread => return finish(InterruptObs::Machinery("input left unread".into())) }
  let first = match epoll_timeout_ms(tid) { Some(t) => t, None => return finish(InterruptObs::Unavailable("the loop thread is not in epoll_wait (another poll system call?): its time-out cannot be read".into())) };
  if first <= 0 || first > delay_ms as i64 + 2 { return finish(InterruptObs::Machinery(format!("after the Special mapping fired the armed time-out is {} ms (delay {} ms)", first, delay_ms))); }
  let mut bound = first; let mut last = first;
  for _ in 0..signals {
    let v1 = thread_state(tid).map(|s| s.1).unwrap_or(0);
    std::thread::sleep(Duration::from_millis(pause_ms));
    let rc = unsafe { libc::syscall(libc::SYS_tgkill, libc::getpid(), tid, libc::SIGUSR1) };
    if rc != 0 { return finish(InterruptObs::Unavailable("tgkill failed".into())); }
    match wait_settled(tid, &inputs, &rx, v1 + 1) { Wait::Quiescent => {}, Wait::Returned(r) => return InterruptObs::Machinery(format!("the loop returned {:?} after a signal", r)), Wait::Machinery(m) => return finish(InterruptObs::Machinery(m)), Wait::StuckUnread => return finish(InterruptObs::Machinery("input left unread".into())) }
    last = match epoll_timeout_ms(tid) { Some(t) => t, None => return finish(InterruptObs::Unavailable("time-out unreadable after the signal".into())) };
    bound -= pause_ms as i64;
    if last > bound + 2 { break; }
  }
  finish(InterruptObs::Rearmed { first_ms: first, after_ms: last, pause_ms: (first - bound) as u64 })
}

/// What the property says must be written after each step (no Special repeats in these layouts: no timers).
pub fn reference(layout: &Layout, steps: &[Step]) -> Vec<Vec<Rec>> {
  let mut m = Mapper::for_layout(layout); let mut tablet = false; let mut out = vec![];
  for st in steps {
    let mut o: Vec<Rec> = vec![];
    for r in &st.recs {
      match st.dev {
        Dev::K => { if r.0 == EV_KEY && (r.2 == 0 || r.2 == 1) { if let Some(k) = KeyCode::from_u16(r.1) {
          if !tablet { let e = if r.2 == 1 { Pressed(k) } else { Released(k) }; let evs = m.step(e).events; if !evs.is_empty() { o.extend(report(&evs)); } }
        } } }
        Dev::T => { if r.0 == EV_SW && r.1 == 1 && (r.2 == 0 || r.2 == 1) { tablet = r.2 == 1; let evs = m.release_all(); if !evs.is_empty() { o.extend(report(&evs)); } } }
      }
    }
    out.push(o);
  }
  out
}

pub struct Scenario { pub layout: Layout, pub steps: Vec<Step>, pub fault: Fault }

fn show_steps(steps: &[Step]) -> String { steps.iter().map(|s| format!("{:?}{:?}", s.dev, s.recs)).collect::<Vec<_>>().join(" ; ") }

/// first discrepancy of one scenario: (property, clause, detail)
pub fn judge(sc: &Scenario, run: &RealRun) -> Option<(&'static str, &'static str, String)> {
  let exp = reference(&sc.layout, &sc.steps);
  if let Some(at) = run.stuck_unread {
    return Some(("C10", "real-driver-waits-with-unread-input", format!("after step {} of [{}] the loop is blocked in epoll_wait (woken once and blocked again) while bytes it has been notified about are still unread: with the edge-triggered registration it stays there until the next event", at, show_steps(&sc.steps))));
  }
  if let Fault::OutNearlyFull { before, free } = &sc.fault {
    // before the fault: step by step as usual
    for i in 0..(*before).min(sc.steps.len()) {
      match run.per_step_out.get(i) { Some(g) if *g == exp[i] => {}, Some(g) => return Some((if sc.steps.iter().any(|s| s.dev == Dev::T) { "C12" } else { "C10" }, "real-driver-output-differs", format!("step {} of [{}]: written {:?}, the mapper's outputs are {:?}", i, show_steps(&sc.steps), g, exp[i]))), None => {} }
    }
    // from the fault on: reports are written while they fit; the first one that does not fit fails as a whole and ends the loop
    let mut room = *free; let mut want: Vec<Rec> = vec![]; let mut bite: Option<usize> = None;
    'outer: for i in *before..sc.steps.len() {
      for batch in exp[i].split_inclusive(|r| *r == SYN) {
        if batch.len() * 24 <= room { want.extend_from_slice(batch); room -= batch.len() * 24; } else { bite = Some(i); break 'outer; }
      }
    }
    if run.after_fault_out != want {
      return Some(("C20", "partial-or-extra-write-around-a-refused-report", format!("[{}] with {} bytes of room on the virtual keyboard from step {}: {:?} reached the device, expected exactly the reports that fit, {:?} (a refused report must end the loop with nothing of it written)", show_steps(&sc.steps), free, before, run.after_fault_out, want)));
    }
    return match (bite, &run.returned) {
      (Some(b), Some((Err(_), at))) if *at == b => None,
      (Some(b), Some((Ok(()), at))) => Some(("C20", "failure-returned-as-ok", format!("[{}] with {} bytes of room from step {}: the loop returned Ok(()) after step {} (the refused report is at step {})", show_steps(&sc.steps), free, before, at, b))),
      (Some(b), Some((Err(e), at))) => Some(("C20", "stops-at-the-wrong-step", format!("[{}] with {} bytes of room from step {}: the report of step {} does not fit, the loop returned Err({}) after step {}", show_steps(&sc.steps), free, before, b, e, at))),
      (Some(b), None) => Some(("C20", "does-not-stop-after-failure", format!("[{}] with {} bytes of room from step {}: the report of step {} was refused and the loop went back to waiting", show_steps(&sc.steps), free, before, b))),
      (None, Some((Err(e), at))) if *at == sc.steps.len() && e.contains("keyboard") => None,
      (None, Some((r, at))) => Some(("C20", "real-driver-loop-returned-early", format!("[{}] with {} bytes of room from step {} (everything fits): the loop returned {:?} after step {}", show_steps(&sc.steps), free, before, r, at))),
      (None, None) => Some(("C20", "does-not-stop-after-failure", format!("[{}]: the keyboard failed with ECONNRESET and the loop went back to waiting", show_steps(&sc.steps)))),
    };
  }
  let fault_step: Option<usize> = match &sc.fault { Fault::None | Fault::OutNearlyFull { .. } => None, Fault::OutFullBefore(j) | Fault::OutClosedBefore(j) => Some(*j), Fault::ResetAfter(_, j) => Some(*j + 1) };
  let has_tablet = sc.steps.iter().any(|s| s.dev == Dev::T);
  let prop_plain: &'static str = if has_tablet { "C12" } else { "C10" };
  // a write fault bites at the first step from `fault_step` on that has something to write; a reset bites at once
  let bite: Option<usize> = match &sc.fault {
    Fault::None => None,
    Fault::ResetAfter(_, j) => Some(*j + 1),
    _ => (fault_step.unwrap()..sc.steps.len()).find(|i| !exp[*i].is_empty()),
  };
  for i in 0..sc.steps.len() {
    let got = run.per_step_out.get(i);
    let before_bite = bite.map(|b| i < b).unwrap_or(true);
    if before_bite {
      match got {
        Some(g) if *g == exp[i] => {}
        // the same key records in the same order, cut into reports differently: the events are the mapper's (C10/C12 hold),
        // the report structure is not "one record per event followed by exactly one SYN_REPORT" per batch - C18's subject
        Some(g) if g.iter().filter(|r| **r != SYN).eq(exp[i].iter().filter(|r| **r != SYN)) => return Some(("C18", "real-driver-batch-not-one-report", format!("step {} of [{}]: written {:?}; each batch of the mapper must be one report: {:?}", i, show_steps(&sc.steps), g, exp[i]))),
        Some(g) => return Some((prop_plain, if has_tablet { "real-driver-tablet-scenario-output-differs" } else { "real-driver-output-differs" }, format!("step {} of [{}]: written {:?}, the mapper's outputs are {:?}", i, show_steps(&sc.steps), g, exp[i]))),
        None => { if let Some((r, at)) = &run.returned { return Some((prop_plain, "real-driver-loop-returned-early", format!("the loop returned {:?} after step {} of [{}] although nothing had failed", r, at, show_steps(&sc.steps)))); } }
      }
    } else {
      // at and after the biting step nothing may reach the virtual keyboard any more (a failed write writes nothing)
      let is_write_fault = matches!(sc.fault, Fault::OutFullBefore(_) | Fault::OutClosedBefore(_));
      if let Some(g) = got { if !g.is_empty() { return Some(("C20", "write-after-failure", format!("step {} of [{}] with fault {:?}: {:?} written after the failure", i, show_steps(&sc.steps), sc.fault, g))); } }
      let _ = is_write_fault;
    }
  }
  match (&sc.fault, bite) {
    (Fault::None, _) | (_, None) => {
      // no fault bit: the loop ends at the final ECONNRESET of the keyboard, with that error
      match &run.returned {
        Some((Err(e), at)) if *at == sc.steps.len() && e.contains("keyboard") => None,
        Some((r, at)) => Some((if *at == sc.steps.len() { "C20" } else { prop_plain }, if *at == sc.steps.len() { "keyboard-failure-not-returned-as-error" } else { "real-driver-loop-returned-early" }, format!("[{}]: the loop returned {:?} after step {}", show_steps(&sc.steps), r, at))),
        None => Some(("C20", "does-not-stop-after-failure", format!("[{}]: the keyboard failed with ECONNRESET and the loop went back to waiting", show_steps(&sc.steps)))),
      }
    }
    (f, Some(b)) => {
      match &run.returned {
        Some((Err(_), at)) if (*at == b) || (matches!(f, Fault::ResetAfter(..)) && *at + 1 == b) => None,
        Some((Ok(()), at)) => Some(("C20", "failure-returned-as-ok", format!("[{}] with fault {:?}: the loop returned Ok(()) after step {}", show_steps(&sc.steps), f, at))),
        Some((Err(e), at)) => Some(("C20", "stops-at-the-wrong-step", format!("[{}] with fault {:?} (bites at step {}): the loop returned Err({}) after step {}", show_steps(&sc.steps), f, b, e, at))),
        None => Some(("C20", "does-not-stop-after-failure", format!("[{}] with fault {:?}: the loop went back to waiting after the failure at step {}", show_steps(&sc.steps), f, b))),
      }
    }
  }
}

fn m(from: &[KeyCode], to: &[KeyCode]) -> crate::keys::Mapping { crate::keys::Mapping { from: from.to_vec(), to: to.to_vec(), repeat: crate::keys::Repeat::Normal, absorbing: vec![] } }
fn l_plain() -> Layout { use KeyCode::*; Layout { mappings: vec![m(&[A], &[B])] } }
fn l_chord() -> Layout { use KeyCode::*; Layout { mappings: vec![m(&[CAPSLOCK], &[]), m(&[CAPSLOCK, J], &[LEFT]), m(&[A], &[LEFTSHIFT, B])] } }

/// one key producing ten keys at once (a report of 10 + 1 records), next to a plain key
fn l_big() -> Layout { use KeyCode::*; Layout { mappings: vec![m(&[A], &[K1, K2, K3, K4, K5, K6, K7, K8, K9, K0]), m(&[B], &[LEFTSHIFT, LEFTCTRL, LEFTALT, X, Y, Z, U, V, W])] } }

fn kp(k: KeyCode, down: bool) -> Rec { (EV_KEY, (k as i32 as u16), if down { 1 } else { 0 }) }

/// every way of cutting `recs` into consecutive non-empty writes
fn cuts(recs: &[Rec], dev: Dev) -> Vec<Vec<Step>> {
  let n = recs.len(); if n == 0 { return vec![vec![]]; }
  let mut res = vec![];
  for mask in 0..(1u32 << (n - 1)) {
    let mut steps = vec![]; let mut cur = vec![recs[0]];
    for i in 1..n { if mask & (1 << (i - 1)) != 0 { steps.push(Step { dev, recs: std::mem::take(&mut cur) }); } cur.push(recs[i]); }
    steps.push(Step { dev, recs: cur });
    res.push(steps);
  }
  res
}

pub fn scenarios(id: &str, tier: Tier) -> Vec<Scenario> {
  use KeyCode::*;
  let q = tier == Tier::Quick;
  let mut v: Vec<Scenario> = vec![];
  // how a key event may be wrapped by the kernel: bare + SYN, scan code first, auto-repeat / LED / SYN_DROPPED noise around it
  let wrap = |r: Rec, form: usize| -> Vec<Rec> { match form { 0 => vec![r, SYN], 1 => vec![(EV_MSC, 4, 0x1e), r, SYN], 2 => vec![(EV_KEY, r.1, 2), SYN, r, (EV_LED, 1, 1), SYN], _ => vec![(EV_SYN, 3, 0), r, SYN] } };
  let t_on: Vec<Vec<Rec>> = vec![vec![(EV_SW, 1, 1), SYN], vec![(EV_SW, 5, 0), (EV_SW, 1, 1), SYN], vec![(EV_MSC, 4, 0x1a), (EV_KEY, 0xe0, 1), SYN, (EV_SW, 1, 1), SYN], vec![(EV_SW, 0, 1), SYN, (EV_SW, 1, 1), SYN]];
  let t_off: Vec<Vec<Rec>> = vec![vec![(EV_SW, 1, 0), SYN], vec![(EV_SW, 5, 1), (EV_SW, 1, 0), SYN], vec![(EV_SW, 1, 0), SYN, (EV_SW, 0, 0), SYN]];
  let t_none: Vec<Vec<Rec>> = vec![vec![(EV_SW, 0, 1), SYN], vec![(EV_SW, 5, 1), SYN], vec![(EV_SW, 1, 2), SYN]];
  match id {
    "C10" => {
      let evs = [kp(A, true), kp(A, false), kp(C, true), kp(C, false), kp(CAPSLOCK, true), kp(J, true)];
      for layout in [l_plain(), l_chord()] {
        // histories of 1..=2 events in every wrapping, every cut of the record stream into writes
        for a in 0..evs.len() { for fa in 0..4 { for b in 0..=evs.len() { for fb in 0..(if b < evs.len() { if q { 2 } else { 4 } } else { 1 }) {
          let mut recs = wrap(evs[a], fa); if b < evs.len() { recs.extend(wrap(evs[b], fb)); }
          if recs.len() > (if q { 6 } else { 8 }) { continue; }
          for steps in cuts(&recs, Dev::K) { v.push(Scenario { layout: layout.clone(), steps, fault: Fault::None }); }
        } } } }
        // histories of 3..=4 events, three cuts: one write, one write per packet, one write per record
        let lens: &[usize] = if q { &[3] } else { &[3, 4] };
        for len in lens { for idx in 0..evs.len().pow(*len as u32) {
          let mut j = idx; let mut packets: Vec<Vec<Rec>> = vec![];
          for p in 0..*len { packets.push(wrap(evs[j % evs.len()], (idx + p) % 4)); j /= evs.len(); }
          let all: Vec<Rec> = packets.concat();
          v.push(Scenario { layout: layout.clone(), steps: vec![Step { dev: Dev::K, recs: all.clone() }], fault: Fault::None });
          v.push(Scenario { layout: layout.clone(), steps: packets.iter().map(|p| Step { dev: Dev::K, recs: p.clone() }).collect(), fault: Fault::None });
          if !q { v.push(Scenario { layout: layout.clone(), steps: all.iter().map(|r| Step { dev: Dev::K, recs: vec![*r] }).collect(), fault: Fault::None }); }
        } }
      }
    }
    "C12" => {
      // every sequence of 1..=n steps over a menu of keyboard packets and tablet-switch packets (changes wrapped in every form, packets without a change)
      let mut menu: Vec<Step> = vec![];
      for r in [kp(A, true), kp(A, false), kp(C, true)] { menu.push(Step { dev: Dev::K, recs: vec![r, SYN] }); }
      for t in t_on.iter().chain(t_off.iter()).chain(t_none.iter()) { menu.push(Step { dev: Dev::T, recs: t.clone() }); }
      menu.push(Step { dev: Dev::T, recs: vec![(EV_SW, 1, 1), SYN, (EV_SW, 1, 0), SYN] });
      let n = menu.len(); let maxlen = if q { 3 } else { 4 };
      for len in 1..=maxlen { for idx in 0..n.pow(len as u32) {
        let mut j = idx; let mut steps = vec![]; for _ in 0..len { steps.push(menu[j % n].clone()); j /= n; }
        if !steps.iter().any(|s| s.dev == Dev::T) { continue; }
        v.push(Scenario { layout: l_plain(), steps, fault: Fault::None });
      } }
      // the story of the property with every pair of wrappings, every cut of the tablet packets, chord layout
      for on in &t_on { for off in &t_off { for c_on in cuts(on, Dev::T) { for c_off in cuts(off, Dev::T) {
        let mut steps = vec![Step { dev: Dev::K, recs: vec![kp(A, true), SYN] }]; steps.extend(c_on.clone());
        steps.push(Step { dev: Dev::K, recs: vec![kp(A, false), SYN, kp(C, true), SYN, kp(C, false), SYN] }); steps.extend(c_off.clone());
        steps.push(Step { dev: Dev::K, recs: vec![kp(C, true), SYN, kp(C, false), SYN] });
        v.push(Scenario { layout: l_chord(), steps, fault: Fault::None });
      } } } }
    }
    "C18" => {
      // reports of many records through the real driver's send path: a key that produces ten keys, a release-all of 9..12 keys
      // at a tablet-mode change, each in one write and cut into one write per packet
      let big: Vec<Vec<Step>> = vec![
        vec![Step { dev: Dev::K, recs: vec![kp(A, true), SYN] }, Step { dev: Dev::K, recs: vec![kp(A, false), SYN] }],
        vec![Step { dev: Dev::K, recs: vec![kp(B, true), SYN, kp(A, true), SYN] }, Step { dev: Dev::K, recs: vec![kp(A, false), SYN, kp(B, false), SYN] }],
        vec![Step { dev: Dev::K, recs: vec![kp(A, true), SYN] }, Step { dev: Dev::T, recs: t_on[0].clone() }, Step { dev: Dev::T, recs: t_off[0].clone() }, Step { dev: Dev::K, recs: vec![kp(B, true), SYN] }, Step { dev: Dev::T, recs: t_on[1].clone() }],
      ];
      for steps in &big { v.push(Scenario { layout: l_big(), steps: steps.clone(), fault: Fault::None }); }
      let keys = [Q, W, E, R, T, Y, U, I, O, P, F1, F2];
      for n in [7usize, 8, 9, 10, 12] {
        let press: Vec<Rec> = keys[..n].iter().flat_map(|k| vec![kp(*k, true), SYN]).collect();
        v.push(Scenario { layout: l_plain(), steps: vec![Step { dev: Dev::K, recs: press.clone() }, Step { dev: Dev::T, recs: t_on[0].clone() }, Step { dev: Dev::T, recs: t_off[0].clone() }], fault: Fault::None });
        let mut steps: Vec<Step> = keys[..n].iter().map(|k| Step { dev: Dev::K, recs: vec![kp(*k, true), SYN] }).collect();
        steps.push(Step { dev: Dev::T, recs: t_on[2].clone() });
        v.push(Scenario { layout: l_chord(), steps, fault: Fault::None });
      }
    }
    "C20" => {
      // a virtual keyboard with room for only part of a large report (a refused report must fail as a whole)
      let big: Vec<Step> = vec![Step { dev: Dev::K, recs: vec![kp(C, true), SYN] }, Step { dev: Dev::K, recs: vec![kp(A, true), SYN] }, Step { dev: Dev::K, recs: vec![kp(A, false), SYN] }, Step { dev: Dev::K, recs: vec![kp(C, false), SYN, kp(B, true), SYN] }];
      let rooms: Vec<usize> = if q { vec![0, 24, 48, 72, 96, 144, 191, 192, 216, 263, 264, 288, 312, 600] } else { (0..=30).map(|x| x * 24).chain([47, 100, 191, 263, 4096]).collect() };
      for before in 0..big.len() { for free in &rooms { v.push(Scenario { layout: l_big(), steps: big.clone(), fault: Fault::OutNearlyFull { before, free: *free } }); } }
      let base: Vec<Vec<Step>> = vec![
        vec![Step { dev: Dev::K, recs: vec![kp(A, true), SYN] }, Step { dev: Dev::K, recs: vec![kp(C, true), SYN] }, Step { dev: Dev::K, recs: vec![kp(A, false), SYN, kp(C, false), SYN] }],
        vec![Step { dev: Dev::K, recs: vec![kp(A, true), SYN] }, Step { dev: Dev::T, recs: t_on[0].clone() }, Step { dev: Dev::K, recs: vec![kp(A, false), SYN] }, Step { dev: Dev::T, recs: t_off[0].clone() }, Step { dev: Dev::K, recs: vec![kp(C, true), SYN] }],
        vec![Step { dev: Dev::K, recs: vec![kp(CAPSLOCK, true), SYN] }, Step { dev: Dev::K, recs: vec![kp(J, true), SYN] }, Step { dev: Dev::T, recs: t_on[1].clone() }, Step { dev: Dev::T, recs: t_none[0].clone() }, Step { dev: Dev::K, recs: vec![kp(J, false), SYN] }],
      ];
      for layout in [l_plain(), l_chord()] { for steps in &base {
        v.push(Scenario { layout: layout.clone(), steps: steps.clone(), fault: Fault::None });
        for i in 0..steps.len() {
          v.push(Scenario { layout: layout.clone(), steps: steps.clone(), fault: Fault::OutFullBefore(i) });
          v.push(Scenario { layout: layout.clone(), steps: steps.clone(), fault: Fault::OutClosedBefore(i) });
          v.push(Scenario { layout: layout.clone(), steps: steps.clone(), fault: Fault::ResetAfter(Dev::K, i) });
          v.push(Scenario { layout: layout.clone(), steps: steps.clone(), fault: Fault::ResetAfter(Dev::T, i) });
        }
      } }
    }
    _ => {}
  }
  v
}

pub struct RAgg { pub runs: u64, pub steps: u64, pub distinct_outputs: HashSet<u64>, pub faults_bitten: u64, pub viols: BTreeMap<(String, String), (u64, String, Value)>, pub machinery: Option<String>, pub note: Option<String> }

fn h<T: std::hash::Hash>(t: &T) -> u64 { use std::hash::Hasher; let mut s = std::collections::hash_map::DefaultHasher::new(); t.hash(&mut s); s.finish() }

pub fn layout_value(l: &Layout) -> Value { crate::corpus::layout_json(l) }

pub fn run_family(ctx: &Ctx, id: &str) -> RAgg {
  let mut agg = RAgg { runs: 0, steps: 0, distinct_outputs: HashSet::new(), faults_bitten: 0, viols: BTreeMap::new(), machinery: None, note: None };
  if !HOOK_BUILT { agg.note = Some("real-descriptor tier unavailable: the hook run_real_driver_on_fds did not compile on this tree (the real driver was restructured); the harness was built without it".into()); println!("NOTE property={} real-descriptor tier (Engine R) unavailable on this tree: hook not built", id); return agg; }
  // is the stepping mechanism available here at all?
  match thread_state(unsafe { libc::syscall(libc::SYS_gettid) } as i32) { Some(_) => {}, None => { agg.note = Some("real-descriptor tier skipped: /proc/self/task/<tid>/syscall or status is not readable here".into()); return agg; } }
  let scs = scenarios(id, ctx.tier);
  // once a scenario ends as a machinery failure, or several have shown the loop stuck with unread input (each costs a second
  // of waiting), the rest of the family is skipped: the verdict is there, and a tree that hangs must not make the check hang
  let abort = std::sync::atomic::AtomicUsize::new(0);
  let results: Vec<(RealRun, Option<(&'static str, &'static str, String)>)> = par_map(scs.len(), ctx.threads.min(8), |i| {
    if abort.load(std::sync::atomic::Ordering::Relaxed) >= 8 { return (RealRun { per_step_out: vec![], returned: None, quiescent_after_fault: false, machinery: None, after_fault_out: vec![], stuck_unread: None }, None); }
    let mut run = run_real(&scs[i].layout, &scs[i].steps, &scs[i].fault);
    if run.machinery.is_some() { abort.fetch_add(8, std::sync::atomic::Ordering::Relaxed); }
    if run.stuck_unread.is_some() { abort.fetch_add(1, std::sync::atomic::Ordering::Relaxed); }
    let mut verdict = if run.machinery.is_some() { None } else { judge(&scs[i], &run) };
    if verdict.is_some() {
      // a failure must reproduce: the same scenario once more, identical observations required
      let again = run_real(&scs[i].layout, &scs[i].steps, &scs[i].fault);
      if again.per_step_out != run.per_step_out || again.after_fault_out != run.after_fault_out || again.stuck_unread != run.stuck_unread || again.returned.as_ref().map(|r| (r.0.is_ok(), r.1)) != run.returned.as_ref().map(|r| (r.0.is_ok(), r.1)) { run.machinery = Some(format!("scenario [{}] {:?} is not deterministic: first {:?} / {:?}, then {:?} / {:?}", show_steps(&scs[i].steps), scs[i].fault, run.per_step_out, run.returned, again.per_step_out, again.returned)); verdict = None; }
    }
    (run, verdict)
  });
  if id == "C10" {
    for layout in [l_plain(), l_chord()] {
      agg.runs += 1; agg.steps += 2;
      let mut obs = hangup_probe(&layout);
      if let HangupObs::WentBackToWaiting = obs { obs = hangup_probe(&layout); } // must reproduce
      match obs {
        HangupObs::ReadAttempted => { agg.distinct_outputs.insert(h(&"hangup-read")); }
        HangupObs::Machinery(m) => { agg.machinery = Some(m); }
        HangupObs::WentBackToWaiting => {
          agg.distinct_outputs.insert(h(&"hangup-waits"));
          let art = json!({"engine": "R", "probe": "hangup", "layout": layout_value(&layout)});
          let e = agg.viols.entry(("C10".to_string(), "hang-up-notification-not-read".to_string())).or_insert((0, "the keyboard hung up with nothing unread (EPOLLHUP without EPOLLIN, as an unplugged device with an empty queue polls) and the loop went back to waiting without reading it: it can never learn that the device is gone".to_string(), art));
          e.0 += 1;
        }
      }
    }
  }
  for (i, (run, verdict)) in results.into_iter().enumerate() {
    agg.runs += 1; agg.steps += scs[i].steps.len() as u64;
    agg.distinct_outputs.insert(h(&(run.per_step_out.clone(), run.after_fault_out.clone(), run.returned.as_ref().map(|r| (r.0.is_ok(), r.1)))));
    if scs[i].fault != Fault::None && run.returned.as_ref().map(|r| r.1 < scs[i].steps.len()).unwrap_or(false) { agg.faults_bitten += 1; }
    if let Some(m) = run.machinery { agg.machinery = Some(m); continue; }
    if let Some((prop, clause, detail)) = verdict {
      let art = json!({"engine": "R", "layout": layout_value(&scs[i].layout), "steps": scs[i].steps.iter().map(|s| json!({"dev": format!("{:?}", s.dev), "records": s.recs})).collect::<Vec<_>>(), "fault": format!("{:?}", scs[i].fault)});
      let e = agg.viols.entry((prop.to_string(), clause.to_string())).or_insert((0, detail, art));
      e.0 += 1;
    }
  }
  agg
}

pub fn replay_artefact(v: &Value) -> i32 {
  if v["probe"] == "interrupt" {
    match interrupt_probe(v["delay_ms"].as_i64().unwrap_or(1500) as i32, v["pause_ms"].as_u64().unwrap_or(400), v["signals"].as_u64().unwrap_or(1) as usize) {
      InterruptObs::Rearmed { first_ms, after_ms, pause_ms } => println!("first time-out {} ms; after {} ms and the signal(s) the loop re-armed {} ms (at most {} ms are left until the chord is due)", first_ms, pause_ms, after_ms, first_ms - pause_ms as i64),
      InterruptObs::Machinery(m) => println!("machinery: {}", m), InterruptObs::Unavailable(m) => println!("unavailable: {}", m) }
    return 0;
  }
  let layout: Layout = match serde_json::from_value(v["layout"].clone()) { Ok(l) => l, Err(e) => { eprintln!("bad layout: {}", e); return 2; } };
  if v["probe"] == "hangup" {
    println!("hang-up probe: keyboard = read end of a pipe, one key event, then the write end is closed with nothing unread");
    match hangup_probe(&layout) { HangupObs::ReadAttempted => println!("the loop went and read the keyboard after the hang-up notification"), HangupObs::WentBackToWaiting => println!("the loop went back to waiting WITHOUT reading the keyboard"), HangupObs::Machinery(m) => println!("machinery: {}", m) }
    return 0;
  }
  let steps: Vec<Step> = v["steps"].as_array().unwrap().iter().map(|s| Step { dev: if s["dev"] == "K" { Dev::K } else { Dev::T }, recs: s["records"].as_array().unwrap().iter().map(|r| (r[0].as_u64().unwrap() as u16, r[1].as_u64().unwrap() as u16, r[2].as_i64().unwrap() as i32)).collect() }).collect();
  let f = v["fault"].as_str().unwrap_or("None");
  let num = |s: &str| -> usize { s.chars().filter(|c| c.is_ascii_digit()).collect::<String>().parse().unwrap_or(0) };
  let fault = if f.starts_with("OutFullBefore") { Fault::OutFullBefore(num(f)) } else if f.starts_with("OutClosedBefore") { Fault::OutClosedBefore(num(f)) } else if f.starts_with("ResetAfter(K") { Fault::ResetAfter(Dev::K, num(f)) } else if f.starts_with("ResetAfter(T") { Fault::ResetAfter(Dev::T, num(f)) }
    else if f.starts_with("OutNearlyFull") { let ns: Vec<usize> = f.split(|c: char| !c.is_ascii_digit()).filter(|t| !t.is_empty()).map(|t| t.parse().unwrap_or(0)).collect(); Fault::OutNearlyFull { before: ns.get(0).cloned().unwrap_or(0), free: ns.get(1).cloned().unwrap_or(0) } }
    else { Fault::None };
  let sc = Scenario { layout, steps, fault };
  let run = run_real(&sc.layout, &sc.steps, &sc.fault);
  println!("property {} clause {}", v["property"], v["clause"]);
  println!("steps: {}", show_steps(&sc.steps)); println!("fault: {:?}", sc.fault);
  let exp = reference(&sc.layout, &sc.steps);
  for (i, o) in run.per_step_out.iter().enumerate() { println!("  after step {}: written {:?}   (mapper's outputs: {:?})", i, o, exp.get(i)); }
  if !run.after_fault_out.is_empty() || matches!(sc.fault, Fault::OutNearlyFull { .. }) { println!("  reached the device from the fault on: {:?}", run.after_fault_out); }
  println!("loop returned: {:?}", run.returned);
  match judge(&sc, &run) { Some((p, c, d)) => println!("first discrepancy: {} / {}: {}", p, c, d), None => println!("no discrepancy") }
  0
}
