// Installer / loader end-to-end tier (DESIGN §5.5): the REAL binary, built from /repo with the guard off, is run in a
// private mount namespace — `totalmapper add_systemd_service --layout-file F --exclude P ...` writes
// /etc/totalmapper.json and /etc/systemd/system/totalmapper@.service into a private /etc, and
// `totalmapper remap --layout-file F` (no device) shows whether main's loading path accepts, rejects or crashes.
// This reaches what the in-process tiers of C14, C15 and C17 cannot: main.rs (argument collection, load_layout),
// add_systemd_service's own steps around build_service_text / write_layout_to_global_config (the file writes), i.e.
// code above the hooked functions.  The oracles are the same as in-process: the saved file is reloaded with the real
// load_layout_from_file and compared with what the real loader makes of F; the unit is read by the reference reader.
//
// One namespace per worker; cases run one after the other inside it (they share /etc).  If `unshare -m` is refused
// the tier reports itself unavailable (never a violation).
use crate::common::*;
use serde_json::{json, Value};
use std::process::Command;

#[derive(Clone)]
pub enum LayoutArg { File(Vec<u8>), Default(String) }

#[derive(Clone)]
pub struct Case { pub layout: LayoutArg, pub excludes: Vec<String>, pub install: bool }

#[derive(Clone, Default)]
pub struct Obs {
  /// exit code of the binary (None: killed by a signal)
  pub status: Option<i32>, pub signal: Option<i32>,
  pub stdout: String, pub stderr: String,
  /// install cases: the two files the installer left behind
  pub config: Option<Vec<u8>>, pub unit: Option<Vec<u8>>,
  /// install cases: `remap --layout-file /etc/totalmapper.json --only-if-keyboard --dev-file /nonexistent` afterwards — the
  /// service's own way of loading the saved file: (exit code, stdout)
  pub service_load: Option<(Option<i32>, String)>,
}

fn hex(b: &[u8]) -> String { let mut s = String::with_capacity(b.len() * 2); for x in b { s.push_str(&format!("{:02x}", x)); } s }
fn unhex(s: &str) -> Vec<u8> { (0..s.len() / 2).map(|i| u8::from_str_radix(&s[2 * i..2 * i + 2], 16).unwrap_or(0)).collect() }

pub fn available() -> bool { Command::new("unshare").args(["-m", "true"]).output().map(|o| o.status.success()).unwrap_or(false) }

/// Runs all cases, split over `workers` private namespaces.  Err = machinery problem (or "unavailable: ...").
pub fn run_cases(cases: &[Case], workers: usize) -> Result<Vec<Obs>, String> {
  if !available() { return Err("unavailable: `unshare -m` is refused on this machine".into()); }
  let bin = crate::c16::repo_binary()?;
  let me = std::env::current_exe().map_err(|e| e.to_string())?;
  let dir = format!("/verif/.target/e2e-{}", std::process::id());
  std::fs::create_dir_all(&dir).map_err(|e| e.to_string())?;
  let workers = workers.max(1).min(cases.len().max(1));
  let per = (cases.len() + workers - 1) / workers;
  let chunks: Vec<&[Case]> = cases.chunks(per.max(1)).collect();
  let results: Vec<Result<Vec<Obs>, String>> = par_map(chunks.len(), chunks.len(), |w| {
    let spec = json!({"bin": bin, "cases": chunks[w].iter().map(|c| json!({
      "file": match &c.layout { LayoutArg::File(b) => json!(hex(b)), _ => Value::Null },
      "default": match &c.layout { LayoutArg::Default(n) => json!(n), _ => Value::Null },
      "excludes": c.excludes, "install": c.install })).collect::<Vec<_>>()});
    let spec_path = format!("{}/spec-{}.json", dir, w);
    let out_path = format!("{}/out-{}.json", dir, w);
    std::fs::write(&spec_path, serde_json::to_string(&spec).unwrap()).map_err(|e| e.to_string())?;
    let out = Command::new("unshare").arg("-m").arg(&me).arg("e2e-ns-worker").arg(&spec_path).arg(&out_path).output().map_err(|e| format!("unshare: {}", e))?;
    if !out.status.success() { return Err(format!("e2e namespace worker exited with {:?}: {}", out.status.code(), String::from_utf8_lossy(&out.stderr).lines().rev().take(8).collect::<Vec<_>>().join(" | "))); }
    let res: Value = serde_json::from_slice(&std::fs::read(&out_path).map_err(|e| e.to_string())?).map_err(|e| format!("e2e worker output: {}", e))?;
    let mut v = vec![];
    for c in res["cases"].as_array().cloned().unwrap_or_default() {
      v.push(Obs {
        status: c["status"].as_i64().map(|x| x as i32), signal: c["signal"].as_i64().map(|x| x as i32),
        stdout: c["stdout"].as_str().unwrap_or("").to_string(), stderr: c["stderr"].as_str().unwrap_or("").to_string(),
        config: c["config"].as_str().map(unhex), unit: c["unit"].as_str().map(unhex),
        service_load: if c["service_load"].is_null() { None } else { Some((c["service_load"][0].as_i64().map(|x| x as i32), c["service_load"][1].as_str().unwrap_or("").to_string())) },
      });
    }
    if v.len() != chunks[w].len() { return Err(format!("e2e worker {} returned {} of {} cases", w, v.len(), chunks[w].len())); }
    Ok(v)
  });
  let _ = std::fs::remove_dir_all(&dir);
  let mut all = vec![];
  for r in results { all.extend(r?); }
  Ok(all)
}

fn sh(cmd: &str, args: &[&str]) -> Result<(), String> {
  let o = Command::new(cmd).args(args).output().map_err(|e| format!("{} {:?}: {}", cmd, args, e))?;
  if !o.status.success() { return Err(format!("{} {:?}: {}", cmd, args, String::from_utf8_lossy(&o.stderr))); }
  Ok(())
}

/// Runs inside `unshare -m`.
pub fn ns_worker(spec_path: &str, out_path: &str) -> i32 {
  use std::os::unix::process::ExitStatusExt;
  let r = (|| -> Result<Value, String> {
    let spec: Value = serde_json::from_str(&std::fs::read_to_string(spec_path).map_err(|e| e.to_string())?).map_err(|e| e.to_string())?;
    let bin = spec["bin"].as_str().unwrap().to_string();
    sh("mount", &["--make-rprivate", "/"])?;
    sh("mount", &["-t", "tmpfs", "tmpfs", "/mnt"])?;
    std::fs::copy(&bin, "/mnt/totalmapper").map_err(|e| e.to_string())?;
    // a private /etc: the account files the installer's helpers and getgrnam() look at, plus the group it expects
    std::fs::create_dir_all("/mnt/etc/udev").map_err(|e| e.to_string())?;
    std::fs::create_dir_all("/mnt/etc/systemd/system").map_err(|e| e.to_string())?;
    for f in ["passwd", "group", "nsswitch.conf", "ld.so.cache"] { let _ = std::fs::copy(format!("/etc/{}", f), format!("/mnt/etc/{}", f)); }
    let mut group = std::fs::read_to_string("/mnt/etc/group").unwrap_or_default();
    if !group.lines().any(|l| l.starts_with("input:")) { group.push_str("input:x:995:\n"); std::fs::write("/mnt/etc/group", group).map_err(|e| e.to_string())?; }
    // the helper programs the installer shells out to are replaced by a no-op inside this namespace only
    std::fs::write("/mnt/stub", "#!/bin/sh\nexit 0\n").map_err(|e| e.to_string())?;
    sh("chmod", &["755", "/mnt/stub"])?;
    sh("mount", &["--bind", "/mnt/etc", "/etc"])?;
    // cover /dev first so that nothing leaks to the machine's real /dev; the installer stats /dev/uinput
    sh("mount", &["-t", "tmpfs", "tmpfs", "/dev"])?;
    for (name, minor) in [("/dev/null\0", 3u32), ("/dev/zero\0", 5), ("/dev/urandom\0", 9)] {
      let rc = unsafe { libc::mknod(name.as_ptr() as *const libc::c_char, libc::S_IFCHR | 0o666, libc::makedev(1, minor)) };
      if rc != 0 { return Err(format!("mknod {}: {}", name.trim_end_matches('\0'), std::io::Error::last_os_error())); }
    }
    std::fs::write("/dev/uinput", b"").map_err(|e| e.to_string())?;
    sh("chgrp", &["input", "/dev/uinput"])?;
    sh("chmod", &["660", "/dev/uinput"])?;
    for p in ["/usr/bin/getent", "/usr/bin/id", "/usr/sbin/usermod", "/usr/bin/chown", "/usr/bin/chmod", "/usr/sbin/adduser", "/usr/sbin/useradd", "/usr/sbin/groupadd"] {
      if std::path::Path::new(p).exists() { sh("mount", &["--bind", "/mnt/stub", p])?; }
    }
    let stale_config: Vec<u8> = {
      let mut t = String::from("{\n  \"mappings\": [\n");
      for i in 0..4000 { t.push_str(&format!("    {{\n      \"from\": [\n        \"F13\"\n      ],\n      \"to\": [\n        \"F14\"\n      ],\n      \"repeat\": \"Normal\",\n      \"absorbing\": []\n    }}{}\n", if i == 3999 { "" } else { "," })); }
      t.push_str("  ]\n}"); t.into_bytes() };
    let stale_unit: Vec<u8> = {
      let mut t = String::from("[Unit]\nDescription=Totalmapper\n\n[Service]\nType=simple\nUser=totalmapper\nGroup=input\nExecStart=/usr/bin/totalmapper remap --verbose --layout-file /etc/totalmapper.json --only-if-keyboard ");
      for i in 0..20000 { t.push_str(&format!("--exclude STALE-{}-Receiver-Mouse ", i)); }
      t.push_str("--dev-file /%I\n"); t.into_bytes() };
    let mut cases = vec![];
    for c in spec["cases"].as_array().unwrap() {
      let excludes: Vec<String> = c["excludes"].as_array().unwrap().iter().map(|x| x.as_str().unwrap().to_string()).collect();
      let install = c["install"].as_bool().unwrap_or(false);
      // An installer runs over whatever the previous installation left behind.  Before every install case both files hold
      // a LONG earlier version (a big valid layout; the unit of an installation with thousands of patterns): an installer
      // that forgets to truncate leaves its tail behind, one that writes nothing leaves the stale file (recognised below).
      if install {
        std::fs::write("/etc/totalmapper.json", &stale_config).map_err(|e| e.to_string())?;
        std::fs::write("/etc/systemd/system/totalmapper@.service", &stale_unit).map_err(|e| e.to_string())?;
      } else {
        let _ = std::fs::remove_file("/etc/totalmapper.json");
        let _ = std::fs::remove_file("/etc/systemd/system/totalmapper@.service");
      }
      let mut cmd = Command::new("/mnt/totalmapper");
      cmd.arg(if install { "add_systemd_service" } else { "remap" });
      if let Some(h) = c["file"].as_str() { std::fs::write("/mnt/layout.json", unhex(h)).map_err(|e| e.to_string())?; cmd.args(["--layout-file", "/mnt/layout.json"]); }
      if let Some(n) = c["default"].as_str() { cmd.args(["--default-layout", n]); }
      // `--exclude=<pattern>` so that a pattern starting with `-` reaches the program as a value
      for p in &excludes { cmd.arg(format!("--exclude={}", p)); }
      let o = cmd.output().map_err(|e| format!("running the binary: {}", e))?;
      let mut case = json!({"status": o.status.code(), "signal": o.status.signal(),
        "stdout": String::from_utf8_lossy(&o.stdout).chars().take(2000).collect::<String>(), "stderr": String::from_utf8_lossy(&o.stderr).chars().take(2000).collect::<String>()});
      if install {
        if let Ok(b) = std::fs::read("/etc/totalmapper.json") { if b != stale_config { case["config"] = json!(hex(&b)); } }
        if let Ok(b) = std::fs::read("/etc/systemd/system/totalmapper@.service") { if b != stale_unit { case["unit"] = json!(hex(&b)); } }
        if case["config"].is_string() {
          let o = Command::new("/mnt/totalmapper").args(["remap", "--layout-file", "/etc/totalmapper.json", "--only-if-keyboard", "--dev-file", "/nonexistent/event0"]).output().map_err(|e| e.to_string())?;
          case["service_load"] = json!([o.status.code(), String::from_utf8_lossy(&o.stdout).chars().take(500).collect::<String>()]);
        }
      }
      cases.push(case);
    }
    Ok(json!({"cases": cases}))
  })();
  match r {
    Ok(v) => { if let Err(e) = std::fs::write(out_path, serde_json::to_string(&v).unwrap()) { eprintln!("e2e ns-worker: {}", e); return 3; } 0 }
    Err(e) => { eprintln!("e2e ns-worker: {}", e); 3 }
  }
}
