// C15 — the layout saved for the systemd service reloads as the same layout (DESIGN §6-C15).
//
// Each layout is written with the call the service installer makes and read with the
// real load_layout_from_file.  When `unshare -m` is available the whole enumeration runs
// inside a private mount namespace with a tmpfs over /etc and the *real* private
// write_layout_to_global_config (through its hook) writes /etc/totalmapper.json;
// otherwise serde_json::to_writer_pretty(keys::Layout) into a scratch file stands in for it.
use crate::common::*;
use crate::corpus::*;
use crate::keys::{KeyCode, Layout, Mapping, Repeat};
use num_traits::FromPrimitive;
use serde_json::{json, Value};
use std::process::Command;

fn save_scratch(l: &Layout, path: &str) -> Result<(), String> {
  let f = std::fs::OpenOptions::new().truncate(true).create(true).write(true).open(path).map_err(|e| e.to_string())?;
  serde_json::to_writer_pretty(std::io::BufWriter::new(f), l).map_err(|e| e.to_string())
}

pub struct Enumeration { pub layouts: u64, pub mappings: u64, pub key_codes: u64, pub nontrivial: u64, pub fails: Vec<(String, String, Value)>, pub samples: Vec<Value> }

fn mk(from: Vec<KeyCode>, to: Vec<KeyCode>, repeat: Repeat, absorbing: Vec<KeyCode>) -> Mapping { Mapping { from, to, repeat, absorbing } }

/// all layouts of the property's quantifier, fed one by one to `f`
fn for_each_layout(thorough: bool, f: &mut dyn FnMut(&str, Layout)) -> u64 {
  use KeyCode::*;
  // (a) every key code the tool knows, in every syntactic position
  let codes: Vec<KeyCode> = (0u16..0x300).filter_map(KeyCode::from_u16).collect();
  for k in &codes {
    let p = if *k == A { B } else { A };
    let p2 = if *k == LEFTSHIFT || p == LEFTSHIFT { LEFTCTRL } else { LEFTSHIFT };
    f("key-code-in-every-position", Layout { mappings: vec![
      mk(vec![*k], vec![*k], Repeat::Normal, vec![]),
      mk(vec![*k, p], vec![p2, *k], Repeat::Special { keys: vec![*k], delay_ms: 180, interval_ms: 30 }, vec![*k]),
      mk(vec![p2, p, *k], vec![*k, p], Repeat::Special { keys: vec![p2, *k], delay_ms: 1, interval_ms: 2 }, vec![p2]),
      mk(vec![p, *k], vec![], Repeat::Disabled, vec![]),
    ] });
  }
  // (b) shape family
  let froms: Vec<Vec<KeyCode>> = vec![vec![J], vec![CAPSLOCK, J], vec![LEFTSHIFT, CAPSLOCK, J], vec![LEFTSHIFT], vec![RIGHTALT, TAB, K1]];
  let tos: Vec<Vec<KeyCode>> = vec![vec![], vec![LEFT], vec![LEFTCTRL, LEFT], vec![LEFTCTRL, LEFTSHIFT, K0], vec![LEFTMETA]];
  let nums: Vec<i32> = vec![0, 1, 180, i32::MAX, -1, i32::MIN];
  let mut repeats: Vec<Repeat> = vec![Repeat::Normal, Repeat::Disabled];
  for keys in [vec![], vec![F21], vec![LEFTCTRL, F21]] { for d in &nums { for i in &nums { repeats.push(Repeat::Special { keys: keys.clone(), delay_ms: *d, interval_ms: *i }); } } }
  // chords the converter can produce and the mapper accepts: repeated keys, three and four keys, descending order
  for keys in [vec![LEFTSHIFT, LEFTSHIFT, A], vec![A, A], vec![F21, F21, F21], vec![LEFTCTRL, LEFTSHIFT, F21], vec![RIGHTCTRL, LEFTALT, LEFTSHIFT, K1], vec![K1, K1]] { repeats.push(Repeat::Special { keys, delay_ms: 7, interval_ms: 9 }); }
  for fr in &froms { for to in &tos { for rp in &repeats {
    let mods = &fr[..fr.len() - 1];
    // absorbing: every subset of the trigger modifiers
    for mask in 0..(1u32 << mods.len()) {
      let ab: Vec<KeyCode> = mods.iter().enumerate().filter(|(i, _)| mask & (1 << i) != 0).map(|(_, k)| *k).collect();
      f("shape-family", Layout { mappings: vec![mk(fr.clone(), to.clone(), rp.clone(), ab)] });
    }
  } } }
  // several mappings at once, order must survive
  f("order", Layout { mappings: (0..40).map(|i| mk(vec![codes[(i * 7) % codes.len()], codes[(i * 11 + 3) % codes.len()]], vec![codes[(i * 13 + 5) % codes.len()]], if i % 3 == 0 { Repeat::Disabled } else { Repeat::Normal }, vec![])).filter(|m| m.from[0] != m.from[1]).collect() });
  // sizes: layouts of n mappings for every n in 40..=130 (the saved file passes 8 KiB / 16 KiB at varying positions) and a few big ones
  for n in (40..=130usize).chain([200, 346, 500, 1000].iter().cloned()) {
    f("file-size", Layout { mappings: (0..n).map(|i| mk(vec![codes[(i * 7 + n) % codes.len()], codes[(i * 11 + 3) % codes.len()]], vec![codes[(i * 13 + 5 + n) % codes.len()], codes[(i * 3 + 1) % codes.len()]],
      if i % 5 == 0 { Repeat::Special { keys: vec![codes[(i + n) % codes.len()]], delay_ms: i as i32, interval_ms: n as i32 } } else if i % 3 == 0 { Repeat::Disabled } else { Repeat::Normal }, vec![])).filter(|m| m.from[0] != m.from[1] && m.to[0] != m.to[1]).collect() });
  }
  f("empty", Layout { mappings: vec![] });
  // (c) everything the converter produces from the fixed corpus
  for nl in fixed_corpus() { f("converted-corpus", nl.layout); }
  // (d) converter outputs of generated alias/row programs (C13's generator, reduced)
  for l in crate::c13::converted_outputs_for_c15(thorough) { f("converted-generated", l); }
  codes.len() as u64
}

pub fn enumerate(thorough: bool, save: &dyn Fn(&Layout) -> Result<String, String>) -> Enumeration {
  let mut e = Enumeration { layouts: 0, mappings: 0, key_codes: 0, nontrivial: 0, fails: vec![], samples: vec![] };
  let mut per_clause: std::collections::BTreeMap<String, u64> = Default::default();
  let mut seen: std::collections::HashSet<String> = Default::default();
  let mut fe = |family: &str, l: Layout| {
    e.layouts += 1; e.mappings += l.mappings.len() as u64;
    let canon = serde_json::to_string(&l).unwrap();
    if seen.insert(canon) && !l.mappings.is_empty() { e.nontrivial += 1; }
    let r = save(&l).and_then(|path| crate::layout_loading::load_layout_from_file(&path).map_err(|e| format!("the saved file does not load: {}", e)));
    let fail = match r {
      Err(msg) => Some(("saved-layout-rejected-or-not-written", msg)),
      Ok(back) => if back.mappings == l.mappings { None } else {
        let i = (0..l.mappings.len().max(back.mappings.len())).find(|i| l.mappings.get(*i) != back.mappings.get(*i)).unwrap();
        Some(("reloaded-layout-differs", format!("mapping {}: saved {:?}, reloaded {:?}", i, l.mappings.get(i), back.mappings.get(i))))
      }
    };
    if let Some((c, d)) = fail {
      *per_clause.entry(c.to_string()).or_insert(0) += 1;
      if !e.fails.iter().any(|f| f.0 == c) { e.fails.push((c.to_string(), d, json!({"engine": "C15", "family": family, "layout": layout_json(&l)}))); }
    }
    if e.samples.len() < 2 && family == "shape-family" && e.layouts % 97 == 0 { e.samples.push(layout_json(&l)); }
  };
  e.key_codes = for_each_layout(thorough, &mut fe);
  for f in e.fails.iter_mut() { f.2["instances"] = json!(per_clause[&f.0]); }
  e
}

pub fn ns_worker() -> i32 {
  let r = (|| -> Result<Value, String> {
    let thorough = std::env::var("VERIF_TIER").map(|t| t == "thorough").unwrap_or(false);
    let m = |args: &[&str]| -> Result<(), String> { let o = Command::new("mount").args(args).output().map_err(|e| e.to_string())?; if o.status.success() { Ok(()) } else { Err(String::from_utf8_lossy(&o.stderr).to_string()) } };
    m(&["--make-rprivate", "/"])?;
    m(&["-t", "tmpfs", "tmpfs", "/etc"])?;
    let e = enumerate(thorough, &|l| { crate::udev_utils::verif_write_layout_to_global_config(l)?; Ok("/etc/totalmapper.json".to_string()) });
    Ok(json!({"layouts": e.layouts, "mappings": e.mappings, "key_codes": e.key_codes, "nontrivial": e.nontrivial, "samples": e.samples,
      "fails": e.fails.iter().map(|(c, d, a)| json!({"clause": c, "detail": d, "artefact": a})).collect::<Vec<_>>()}))
  })();
  match r { Ok(v) => { println!("{}", v); 0 } Err(e) => { eprintln!("c15 ns-worker: {}", e); 3 } }
}

/// End-to-end tier (DESIGN 5.5): the real binary's `add_systemd_service --layout-file F` (or --default-layout NAME) in a
/// private mount namespace writes /etc/totalmapper.json; that file is reloaded with the real load_layout_from_file and
/// compared with what the real loader makes of F itself; the real binary must also accept the saved file the way the
/// service does (`remap --layout-file /etc/totalmapper.json --only-if-keyboard --dev-file ...`).
pub struct InstallTier { pub invocations: u64, pub fails: Vec<(String, String, Value)>, pub machinery: Option<String> }

pub fn installer_tier(ctx: &Ctx) -> Option<InstallTier> {
  use crate::e2e::*;
  if !available() { return None; }
  let thorough = ctx.tier == Tier::Thorough;
  // (source text given to the binary, what it must mean)
  let mut items: Vec<(String, LayoutArg, Layout)> = vec![];
  {
    let mut idx = 0usize;
    let mut f = |family: &str, l: Layout| {
      idx += 1;
      let keep = thorough || family != "shape-family" || idx % 5 == 0;
      if keep { items.push((family.to_string(), LayoutArg::File(serde_json::to_vec(&l).unwrap()), l)); }
    };
    for_each_layout(thorough, &mut f);
  }
  // layout files in the user's own syntax (rows, aliases, repeat-only entries): C13's generated programs, reduced
  let stride = if thorough { 3 } else { 23 };
  for (i, p) in crate::c13::programs(false).iter().enumerate() {
    if i % stride == 0 || i % 101 < 3 { if let Ok(l) = load_layout_value(p) { items.push(("shorthand-program".into(), LayoutArg::File(serde_json::to_vec_pretty(p).unwrap()), l)); } }
  }
  // the built-in layouts by name
  let mut names: Vec<&String> = crate::default_fancy_layouts::DEFAULT_LAYOUTS.keys().collect(); names.sort();
  for n in names { if let Ok(l) = load_layout_text(crate::default_fancy_layouts::DEFAULT_LAYOUTS[n]) { items.push(("default-layout".into(), LayoutArg::Default(n.clone()), l)); } }
  let cases: Vec<Case> = items.iter().enumerate().map(|(i, it)| Case { layout: it.1.clone(), excludes: if i % 3 == 0 { vec!["*Mouse*".into()] } else { vec![] }, install: true }).collect();
  let mut t = InstallTier { invocations: cases.len() as u64, fails: vec![], machinery: None };
  let obs = match run_cases(&cases, ctx.threads) { Ok(o) => o, Err(e) => { if e.starts_with("unavailable") { return None; } t.machinery = Some(e); return Some(t); } };
  let scratch = format!("/verif/.target/c15-e2e-{}.json", std::process::id());
  let mut per_clause: std::collections::BTreeMap<String, u64> = Default::default();
  for ((family, arg, want), o) in items.iter().zip(obs.iter()) {
    let src = match arg { LayoutArg::File(b) => json!({"layout_file_text": String::from_utf8_lossy(b)}), LayoutArg::Default(n) => json!({"default_layout": n}) };
    let art = json!({"engine": "C15", "tier": "real-binary", "family": family, "source": src, "layout": layout_json(want)});
    let mut fail: Option<(&str, String)> = None;
    match &o.config {
      None => {
        if o.signal.is_some() || o.status == Some(101) { fail = Some(("installer-crashes", format!("add_systemd_service died (status {:?}, signal {:?}): {}", o.status, o.signal, truncate(&o.stderr, 400)))); }
        else if t.machinery.is_none() { t.machinery = Some(format!("the installer wrote no /etc/totalmapper.json in the private namespace (status {:?}): {} {}", o.status, truncate(&o.stdout, 300), truncate(&o.stderr, 300))); }
      }
      Some(bytes) => {
        if std::fs::write(&scratch, bytes).is_err() { t.machinery = Some("cannot write scratch file".into()); continue; }
        match crate::layout_loading::load_layout_from_file(&scratch) {
          Err(e) => fail = Some(("saved-layout-rejected-or-not-written", format!("the file saved by the real binary does not load: {}", e))),
          Ok(back) => if back.mappings != want.mappings {
            let i = (0..want.mappings.len().max(back.mappings.len())).find(|i| want.mappings.get(*i) != back.mappings.get(*i)).unwrap();
            fail = Some(("reloaded-layout-differs", format!("real binary: mapping {}: the layout file means {:?}, the saved file reloads as {:?}", i, want.mappings.get(i), back.mappings.get(i))));
          }
        }
        if fail.is_none() { if let Some((st, out)) = &o.service_load { if *st != Some(0) { fail = Some(("service-cannot-load-saved-file", format!("`totalmapper remap --layout-file /etc/totalmapper.json --only-if-keyboard --dev-file ...` (the service's command) exits with {:?}: {}", st, truncate(out, 300)))); } } }
      }
    }
    if let Some((c, d)) = fail {
      *per_clause.entry(c.to_string()).or_insert(0) += 1;
      if !t.fails.iter().any(|f| f.0 == c) { t.fails.push((c.to_string(), d, art)); }
    }
  }
  let _ = std::fs::remove_file(&scratch);
  for f in t.fails.iter_mut() { f.2["instances"] = json!(per_clause[&f.0]); }
  Some(t)
}

pub fn run(ctx: &Ctx) -> Outcome {
  let thorough = ctx.tier == Tier::Thorough;
  let mut o = Outcome::new("exploration");
  // tier 1: in this process, scratch file written with serde_json::to_writer_pretty
  let scratch = format!("/verif/.target/c15-{}.json", std::process::id());
  let e = enumerate(thorough, &|l| { save_scratch(l, &scratch)?; Ok(scratch.clone()) });
  let _ = std::fs::remove_file(&scratch);
  let mut fails: Vec<(String, String, Value, &'static str)> = e.fails.iter().map(|(c, d, a)| (c.clone(), d.clone(), a.clone(), "scratch-file")).collect();
  let mut evals = e.layouts; let mut nontrivial = e.nontrivial;
  // tier 2: the real write_layout_to_global_config into a private /etc
  let mut ns_status = "ran";
  let usable = Command::new("unshare").args(["-m", "true"]).output().map(|o| o.status.success()).unwrap_or(false);
  if !usable { ns_status = "unavailable"; }
  else {
    let me = std::env::current_exe().unwrap();
    match Command::new("unshare").arg("-m").arg(&me).arg("c15-ns-worker").env("VERIF_TIER", ctx.tier.name()).output() {
      Ok(out) if out.status.success() => {
        match serde_json::from_slice::<Value>(&out.stdout) {
          Ok(v) => {
            evals += v["layouts"].as_u64().unwrap_or(0);
            o.cov("namespace_layouts_written_to_private_etc", v["layouts"].as_u64().unwrap_or(0));
            if v["layouts"].as_u64() != Some(e.layouts) { o.machinery_error = Some("namespace tier enumerated a different number of layouts".into()); }
            for f in v["fails"].as_array().cloned().unwrap_or_default() { fails.push((f["clause"].as_str().unwrap_or("").to_string(), f["detail"].as_str().unwrap_or("").to_string(), f["artefact"].clone(), "private-etc")); }
          }
          Err(er) => o.machinery_error = Some(format!("namespace worker output: {}", er)),
        }
      }
      Ok(out) => o.machinery_error = Some(format!("namespace worker failed: {}", String::from_utf8_lossy(&out.stderr))),
      Err(er) => o.machinery_error = Some(format!("unshare: {}", er)),
    }
  }
  o.cov("namespace_tier", ns_status);
  // tier 3: the real binary's installer in a private namespace
  match installer_tier(ctx) {
    None => { o.cov("installer_end_to_end_tier", "unavailable"); }
    Some(t) => {
      o.cov("installer_end_to_end_tier", "ran");
      o.cov("installer_invocations_of_the_real_binary", t.invocations);
      evals += t.invocations;
      if let Some(e) = t.machinery { o.machinery_error = Some(format!("installer end-to-end tier: {}", e)); }
      for (c, d, a) in t.fails { fails.push((c, d, a, "real-binary")); }
    }
  }
  o.cov("evaluations", evals);
  o.cov("distinct_nontrivial", nontrivial);
  o.cov("layouts", e.layouts);
  o.cov("mappings_round_tripped", e.mappings);
  o.cov("key_codes_covered", e.key_codes);
  o.cov("exhaustive", true);
  o.cov("rule", "every key code KeyCode::from_u16 knows, each in trigger-final, trigger-modifier, output-final, output-modifier, repeat-key and absorbing position; the shape family |from| 1-3 x |to| 0-3 x repeat {Normal, Disabled, Special with 0-2 keys and delay/interval over {0,1,180,i32::MAX,-1,i32::MIN}} x every absorbing subset of the trigger modifiers; a 40-mapping order test; layouts of n mappings for every n in 40..=130 and 200/346/500/1000 (saved files around every 8 KiB boundary); the empty layout; every converted layout of the fixed corpus; the converter's outputs for every 23rd (thorough: every 3rd) program of C13's grammar. Saved, reloaded with the real load_layout_from_file, compared as values in order. Third tier, when `unshare -m` is available: the real binary (guard off) runs `add_systemd_service --layout-file F` / `--default-layout NAME` in a private mount namespace for every layout above (quick: every 5th of the shape family) as a basic-JSON file, for C13's shorthand programs as files in the user's syntax and for the built-in names; the /etc/totalmapper.json it leaves is reloaded with the real load_layout_from_file and compared with what the real loader makes of F, and the real binary must accept it with the service's own command line. distinct_nontrivial = distinct non-empty layouts (by serialised value).".to_string());
  o.cov("samples", json!(e.samples));
  o.assumptions = vec!["the scratch-file tier trusts that the installer serialises with serde_json::to_writer_pretty(keys::Layout); the namespace tier calls the real private function".into()];
  let mut seen = std::collections::BTreeSet::new();
  for (c, d, a, tier) in &fails {
    if !seen.insert(c.clone()) { continue; }
    let mut a = a.clone(); a["tier"] = json!(tier);
    o.violations.push(Violation { property: "C15".into(), clause: c.clone(), signature: None, description: d.clone(), artefact: a.clone(), count: a["instances"].as_u64().unwrap_or(1) });
  }
  o
}

pub fn replay_artefact(v: &Value) -> i32 {
  let l: Layout = match serde_json::from_value(v["layout"].clone()) { Ok(l) => l, Err(e) => { eprintln!("bad layout: {}", e); return 2; } };
  let scratch = format!("/verif/.target/c15-replay-{}.json", std::process::id());
  if let Err(e) = save_scratch(&l, &scratch) { println!("cannot save: {}", e); return 0; }
  println!("saved file:\n{}", std::fs::read_to_string(&scratch).unwrap_or_default());
  match crate::layout_loading::load_layout_from_file(&scratch) { Ok(b) => println!("reloaded {} the original\n{:?}", if b.mappings == l.mappings { "EQUALS" } else { "DIFFERS FROM" }, b.mappings), Err(e) => println!("reload fails: {}", e) }
  let _ = std::fs::remove_file(&scratch);
  0
}
