// C16 — keyboard selection (DESIGN §5.4, §6-C16).
//
// In-process tier: the two private text extractors (through the hooks) over every
// sequence of device-list entries up to the bound, and the two exclusion flaggers over
// every exclude set of a glob menu.  End-to-end tier: the real binary, built from /repo
// with the guard off, inside a private mount namespace with a fabricated
// /proc/bus/input/devices, /sys/devices/... and /dev/input/eventN.
use crate::common::*;
use serde_json::{json, Value};
use std::collections::{BTreeMap, BTreeSet};
use std::process::Command;

const KB_KEYS: &str = "B: KEY=1100f02902000 8380307cf910f001 feffffdfffefffff fffffffffffffffe";
// like a gaming mouse with a full key map plus BTN_* and scroll bits
const MOUSE_KEYS: &str = "B: KEY=1f 0 0 30000 3878d801d001 1e000000000000 0 ff0000 1100f02902000 8384307cf910f001 feffffdfffefffff fffffffffffffffe";
const POWER_KEYS: &str = "B: KEY=10000000000000 0";

#[derive(Clone)]
pub struct Entry { pub tag: &'static str, pub name: Option<&'static str>, pub sysfs: Option<String>, pub event: u32, pub text: String }

fn entry(tag: &'static str, idx: u32, name: Option<&'static str>, sysfs: Option<&str>, ev: Option<&str>, key: Option<&str>) -> Entry {
  let mut s = String::new();
  s.push_str(&format!("I: Bus=0011 Vendor=0001 Product={:04x} Version=ab41\n", idx));
  if let Some(n) = name { s.push_str(&format!("N: Name=\"{}\"\n", n)); }
  s.push_str("P: Phys=isa0060/serio0/input0\n");
  if let Some(p) = sysfs { s.push_str(&format!("S: Sysfs={}\n", p)); }
  s.push_str(&format!("U: Uniq=\nH: Handlers=sysrq kbd event{} leds \nB: PROP=0\n", idx));
  if let Some(e) = ev { s.push_str(&format!("B: EV={}\n", e)); }
  if let Some(k) = key { s.push_str(k); s.push('\n'); }
  s.push_str("B: MSC=10\nB: LED=7\n\n");
  Entry { tag, name, sysfs: sysfs.map(|x| x.to_string()), event: idx, text: s }
}

pub fn menu() -> Vec<Entry> {
  vec![
    entry("atkbd", 2, Some("AT Translated Set 2 keyboard"), Some("/devices/platform/i8042/serio0/input/input2"), Some("120013"), Some(KB_KEYS)),
    entry("usbkbd", 9, Some("Foo USB Keyboard"), Some("/devices/pci0000:00/0000:00:14.0/usb1/1-1/input/input9"), Some("120013"), Some(KB_KEYS)),
    entry("gaming-mouse", 10, Some("Logitech Gaming Mouse G502"), Some("/devices/pci0000:00/0000:00:14.0/usb1/1-2/input/input10"), Some("100017"), Some(MOUSE_KEYS)),
    entry("mouse-named-keyboard", 11, Some("Gaming Mouse Keyboard"), Some("/devices/pci0000:00/0000:00:14.0/usb1/1-3/input/input11"), Some("100017"), Some(MOUSE_KEYS)),
    entry("power-button", 1, Some("Power Button"), Some("/devices/LNXSYSTM:00/LNXPWRBN:00/input/input1"), Some("3"), Some(POWER_KEYS)),
    entry("lid-switch", 0, Some("Lid Switch"), Some("/devices/LNXSYSTM:00/LNXSYBUS:00/PNP0C0D:00/input/input0"), Some("21"), None),
    entry("video-bus", 7, Some("Video Bus"), Some("/devices/LNXSYSTM:00/LNXSYBUS:00/PNP0A08:00/LNXVIDEO:00/input/input7"), Some("3"), Some("B: KEY=3e000b00000000 0 0 0")),
    entry("cros-ec", 3, Some("cros_ec"), Some("/devices/platform/GOOG0004:00/input/input3"), Some("120013"), Some(KB_KEYS)),
    entry("totalmapper-virtual", 20, Some("totalmapper"), Some("/devices/virtual/input/input20"), Some("120013"), Some(KB_KEYS)),
    entry("other-virtual", 21, Some("py-evdev-uinput keyboard"), Some("/devices/virtual/input/input21"), Some("120013"), Some(KB_KEYS)),
    entry("no-name", 4, None, Some("/devices/platform/x/input/input4"), Some("120013"), Some(KB_KEYS)),
    entry("no-sysfs", 5, Some("Nosys keyboard"), None, Some("120013"), Some(KB_KEYS)),
    entry("no-ev", 6, Some("Noev device"), Some("/devices/platform/y/input/input6"), None, Some(KB_KEYS)),
    entry("no-key", 8, Some("Nokey keyboard"), Some("/devices/platform/z/input/input8"), Some("120013"), None),
    // entries that sit on a decision boundary of the heuristic, so that a field leaking in from the previous entry flips them
    entry("no-ev-mouse-name", 12, Some("Noev Mouse"), Some("/devices/platform/w/input/input12"), None, Some(KB_KEYS)),
    entry("no-ev-scroll", 13, Some("Noev Pad"), Some("/devices/platform/v/input/input13"), None, Some(MOUSE_KEYS)),
    entry("no-name-scroll-leds", 14, None, Some("/devices/platform/u/input/input14"), Some("120013"), Some(MOUSE_KEYS)),
    entry("no-name-mousey", 15, None, Some("/devices/platform/t/input/input15"), Some("100017"), Some(MOUSE_KEYS)),
    entry("mouse-name-leds", 16, Some("Fancy Mouse Pad"), Some("/devices/platform/s/input/input16"), Some("120013"), Some(KB_KEYS)),
    // key-count threshold (20 keys) and the "normal keys" threshold (3), with and without a bit-63 key (F5 = 63)
    entry("macro-pad-20-keys-with-f5", 17, Some("Macro Pad"), Some("/devices/platform/r/input/input17"), Some("120013"), Some("B: KEY=fa0000001000cffe")),
    entry("macro-pad-19-keys", 18, Some("Macro Pad"), Some("/devices/platform/q/input/input18"), Some("120013"), Some("B: KEY=7a0000001000cffe")),
    entry("macro-pad-20-keys-no-f5", 19, Some("Macro Pad"), Some("/devices/platform/p/input/input19"), Some("120013"), Some("B: KEY=7a0000003000cffe")),
    entry("two-normal-keys-only", 22, Some("Button Box"), Some("/devices/platform/o/input/input22"), Some("120013"), Some("B: KEY=ffffff 0 0 0 10000002")),
    // unusual but legal names
    entry("name-with-quotes", 24, Some("Vendor \"Pro\" Keyboard"), Some("/devices/platform/m/input/input24"), Some("120013"), Some(KB_KEYS)),
    entry("name-unicode", 25, Some("Tastatur Ü ⌨"), Some("/devices/platform/l/input/input25"), Some("120013"), Some(KB_KEYS)),
    entry("name-trailing-space", 26, Some("Spacey Keyboard "), Some("/devices/platform/k/input/input26"), Some("120013"), Some(KB_KEYS)),
    entry("name-leading-spaces", 28, Some("  USB Keyboard"), Some("/devices/platform/i/input/input28"), Some("120013"), Some(KB_KEYS)),
    entry("name-blanks-both-ends-and-tab", 29, Some(" \tOdd  Keyboard \t"), Some("/devices/platform/h/input/input29"), Some("120013"), Some(KB_KEYS)),
    entry("name-glob-chars", 27, Some("Key*board? [x]"), Some("/devices/platform/j/input/input27"), Some("120013"), Some(KB_KEYS)),
    // devices none of whose keys lies in the typing block (codes 1..127): all-zero LOW words under populated high words
    entry("button-box-32-buttons", 30, Some("Generic 32 Button Box"), Some("/devices/pci0000:00/0000:00:14.0/usb1/1-4/input/input30"), Some("1b"), Some("B: KEY=ffffffff00000000 0 0 0 0")),
    entry("gamepad-high-words", 31, Some("Arcade Stick"), Some("/devices/pci0000:00/0000:00:14.0/usb1/1-5/input/input31"), Some("120013"), Some("B: KEY=ffff000000000000 ffffffff00000000 0 0 0 0")),
    entry("consumer-control-above-127", 32, Some("Media Remote"), Some("/devices/platform/g/input/input32"), Some("120013"), Some("B: KEY=3ff 0 ffffffffffffffff 0 0")),
    entry("three-normal-keys", 23, Some("Button Box"), Some("/devices/platform/n/input/input23"), Some("120013"), Some("B: KEY=ffffff 0 0 0 10004002")),
  ]
}

pub const GLOBS: [&str; 19] = ["AT Translated Set 2 keyboard", "*", "?oo USB Keyboard", "AT*", "*keyboard", "*USB*", "No Such Device", "*Mouse*", "Foo USB Keyboar?",
  "", "**", "*?*", "Key*board? [x]", "Key\\*board*", "*Ü*", "* ", "USB*", " *", "Odd*"];

/// independent glob matcher: `*` any run of characters, `?` exactly one character
pub fn glob_match(pat: &str, s: &str) -> bool {
  let p: Vec<char> = pat.chars().collect();
  let t: Vec<char> = s.chars().collect();
  fn go(p: &[char], t: &[char]) -> bool {
    match p.first() {
      None => t.is_empty(),
      Some('*') => (0..=t.len()).any(|i| go(&p[1..], &t[i..])),
      Some('?') => !t.is_empty() && go(&p[1..], &t[1..]),
      Some(c) => t.first() == Some(c) && go(&p[1..], &t[1..]),
    }
  }
  go(&p, &t)
}

fn exclude_sets(quick: bool) -> Vec<Vec<&'static str>> {
  let mut v: Vec<Vec<&'static str>> = vec![vec![]];
  for g in GLOBS.iter() { v.push(vec![*g]); }
  if !quick { for a in 0..GLOBS.len() { for b in a + 1..GLOBS.len() { v.push(vec![GLOBS[a], GLOBS[b]]); } } } else { v.push(vec!["AT*", "*USB*"]); v.push(vec!["No Such Device", "*keyboard"]); }
  v
}

pub fn run(ctx: &Ctx) -> Outcome {
  let q = ctx.tier == Tier::Quick;
  let mut o = Outcome::new("exploration");
  let menu = menu();
  let k = menu.len();
  let single: Vec<(Vec<(String, String)>, Vec<(String, String, bool)>)> = menu.iter().map(|e| (crate::keyboard_listing::verif_extract_keyboards(&e.text), crate::keyboard_listing::verif_extract_input_devices(&e.text))).collect();
  let maxlen = if q { 2 } else { 4 };
  let mut total = 0usize;
  for l in 1..=maxlen { total += k.pow(l as u32); }
  #[derive(Default)]
  struct Acc { n: u64, nontrivial: u64, bad: BTreeMap<&'static str, (u64, Vec<usize>, String)> }
  let acc = par_fold(total, ctx.threads, Acc::default, |i, acc: &mut Acc| {
    let mut len = 1; let mut j = i; let mut base = k;
    while j >= base { j -= base; len += 1; base *= k; }
    let mut seq = vec![]; let mut text = String::new(); let mut e1 = vec![]; let mut e2 = vec![];
    for _ in 0..len { let e = j % k; j /= k; seq.push(e); text.push_str(&menu[e].text); e1.extend(single[e].0.clone()); e2.extend(single[e].1.clone()); }
    let r1 = crate::keyboard_listing::verif_extract_keyboards(&text);
    let r2 = crate::keyboard_listing::verif_extract_input_devices(&text);
    acc.n += 1;
    if len > 1 { acc.nontrivial += 1; }
    let mut rep = |c: &'static str, d: String| { let e = acc.bad.entry(c).or_insert((0, seq.clone(), d)); e.0 += 1; };
    if r1 != e1 { rep("keyboard-classification-depends-on-neighbours", format!("entries {:?}: list_keyboards extractor gives {:?}, entries taken alone give {:?}", seq.iter().map(|e| menu[*e].tag).collect::<Vec<_>>(), r1, e1)); }
    if r2 != e2 { rep("device-classification-depends-on-neighbours", format!("entries {:?}: input-device extractor gives {:?}, entries taken alone give {:?}", seq.iter().map(|e| menu[*e].tag).collect::<Vec<_>>(), r2, e2)); }
    let r2k: Vec<(String, String)> = r2.iter().filter(|d| d.2).map(|d| (d.0.clone(), d.1.clone())).collect();
    if r1 != r2k { rep("two-discovery-paths-disagree", format!("entries {:?}: --all-keyboards path sees {:?}, --dev-file --only-if-keyboard path sees {:?}", seq.iter().map(|e| menu[*e].tag).collect::<Vec<_>>(), r1, r2k)); }
  }, |a, b| { a.n += b.n; a.nontrivial += b.nontrivial; for (k, v) in b.bad { match a.bad.get_mut(k) { None => { a.bad.insert(k, v); } Some(e) => { let c = e.0 + v.0; if (v.1.len(), &v.1) < (e.1.len(), &e.1) { *e = v; } e.0 = c; } } } });
  let mut evals = acc.n; let mut nontrivial = acc.nontrivial;
  // semantic anchors, from the kernel's bitmap format alone (rightmost word = codes 0..63, next = 64..127, ...): an entry none
  // of whose keys lies in the typing block (codes 1..127) is not a "real keyboard" under any heuristic; the plain AT and
  // USB keyboards are.  What lies between is the heuristic's business and is not judged.
  let mut anchor_fail: Vec<(String, String, Value, u64)> = vec![];
  for (i, e) in menu.iter().enumerate() {
    let key_line = e.text.lines().find(|l| l.starts_with("B: KEY=")).map(|l| &l["B: KEY=".len()..]);
    let mut has_typing_key = false;
    if let Some(kl) = key_line { for (w, tok) in kl.split(' ').rev().enumerate() { if w < 2 { if let Ok(v) = u64::from_str_radix(tok, 16) { if (if w == 0 { v & !1 } else { v }) != 0 { has_typing_key = true; } } } } }
    let classified = !single[i].0.is_empty() || single[i].1.iter().any(|d| d.2);
    evals += 1;
    if !has_typing_key { nontrivial += 1; if classified { anchor_fail.push(("device-without-any-typing-key-counts-as-keyboard".into(), format!("entry {} has no key code in 1..127 ({:?}) but is classified as a keyboard: {:?} / {:?}", e.tag, key_line, single[i].0, single[i].1), json!({"engine": "C16", "tier": "in-process", "entries": [e.tag], "text": e.text}), 1)); } }
    if (e.tag == "atkbd" || e.tag == "usbkbd") && (single[i].0.is_empty() || !single[i].1.iter().any(|d| d.2)) { anchor_fail.push(("plain-keyboard-not-recognised".into(), format!("entry {} (full AT key set, EV=120013) is not classified as a keyboard: {:?} / {:?}", e.tag, single[i].0, single[i].1), json!({"engine": "C16", "tier": "in-process", "entries": [e.tag], "text": e.text}), 1)); }
  }
  // long device lists: the whole menu repeated (72+ entries), forwards and backwards
  let mut long_fail: Vec<(String, String, Value, u64)> = vec![];
  for rev in [false, true] { for reps in [1usize, 3, 10] {
    let mut order: Vec<usize> = (0..k).collect(); if rev { order.reverse(); }
    let mut text = String::new(); let mut e1 = vec![]; let mut e2 = vec![];
    for _ in 0..reps { for &e in &order { text.push_str(&menu[e].text); e1.extend(single[e].0.clone()); e2.extend(single[e].1.clone()); } }
    evals += 1; nontrivial += 1;
    if crate::keyboard_listing::verif_extract_keyboards(&text) != e1 || crate::keyboard_listing::verif_extract_input_devices(&text) != e2 {
      long_fail.push(("long-device-list-classified-differently".into(), format!("the whole menu x{} ({}) is not classified entry by entry", reps, if rev { "reversed" } else { "in order" }), json!({"engine": "C16", "tier": "in-process", "text": text}), 1));
    }
  } }
  let mut fails: Vec<(String, String, Value, u64)> = acc.bad.into_iter().map(|(c, (n, seq, d))| (c.to_string(), d, json!({"engine": "C16", "tier": "in-process", "entries": seq.iter().map(|e| menu[*e].tag).collect::<Vec<_>>(), "text": seq.iter().map(|e| menu[*e].text.clone()).collect::<String>()}), n)).collect();
  fails.extend(long_fail);
  fails.extend(anchor_fail);
  // exclusion flaggers against the independent glob matcher
  let names: Vec<String> = menu.iter().map(|e| e.name.unwrap_or("").to_string()).collect();
  let sets = exclude_sets(q);
  let mut excl_checks = 0u64; let mut excluded_hits = 0u64;
  for set in &sets {
    let devs1: Vec<(std::path::PathBuf, String)> = names.iter().enumerate().map(|(i, n)| (std::path::PathBuf::from(format!("/dev/input/event{}", i)), n.clone())).collect();
    let devs2: Vec<(std::path::PathBuf, String, bool)> = names.iter().enumerate().map(|(i, n)| (std::path::PathBuf::from(format!("/dev/input/event{}", i)), n.clone(), i % 2 == 0)).collect();
    let f1 = crate::remapping_loop::verif_hooks::flag_excluded_names(devs1, set);
    let f2 = crate::remapping_loop::verif_hooks::flag_excluded_input_device_names(devs2, set);
    for (i, n) in names.iter().enumerate() {
      let exp = set.iter().any(|g| glob_match(g, n));
      excl_checks += 1; evals += 1; if exp { excluded_hits += 1; nontrivial += 1; }
      if f1[i].2 != exp || f2[i].3 != exp || f1[i].1 != *n || f2[i].1 != *n {
        fails.push(("exclusion-differs-from-glob-semantics".into(), format!("name {:?} patterns {:?}: flag_excluded={} flag_excluded_input_devices={} independent matcher={}", n, set, f1[i].2, f2[i].3, exp), json!({"engine": "C16", "tier": "in-process", "name": n, "patterns": set}), 1));
      }
    }
  }
  // end-to-end tier in a private mount namespace
  let ns = namespace_tier(ctx, &menu, &single, &sets);
  let mut ns_status = "ran";
  match &ns {
    Err(e) if e.starts_with("unavailable") => { ns_status = "unavailable"; o.cov("namespace_tier_note", e.clone()); }
    Err(e) => { o.machinery_error = Some(format!("namespace tier failed: {}", e)); }
    Ok(r) => {
      evals += r.cases; nontrivial += r.cases;
      o.cov("namespace_cases", r.cases);
      o.cov("namespace_binary_invocations", r.invocations);
      for (c, d, a) in &r.fails { fails.push((c.clone(), d.clone(), a.clone(), 1)); }
    }
  }
  o.cov("namespace_tier", ns_status);
  o.cov("evaluations", evals);
  o.cov("distinct_nontrivial", nontrivial);
  o.cov("entry_menu", json!(menu.iter().enumerate().map(|(i, e)| json!({"tag": e.tag, "alone_is_keyboard": !single[i].0.is_empty(), "alone_listed_as_input_device": !single[i].1.is_empty()})).collect::<Vec<_>>()));
  o.cov("entry_sequences", acc.n);
  o.cov("exclude_sets", sets.len() as u64);
  o.cov("exclusion_checks", excl_checks);
  o.cov("exclusion_checks_where_a_pattern_matches", excluded_hits);
  o.cov("exhaustive", true);
  o.cov("rule", format!("in-process: every sequence of length 1..={} over {} device-list entries through both private extractors (independence: result = concatenation of the entries' own results; agreement of the two extractors; two anchors read off the kernel's bitmap format alone: an entry without any key code in 1..127 is never a keyboard, the plain AT/USB keyboards are); every (name, exclude set) pair over {} exclude sets from a 9-glob menu through both flaggers against an independent glob matcher. end-to-end: the real binary in a private mount namespace over fabricated /proc/bus/input/devices, /sys and /dev/input: list_keyboards, remap --all-keyboards --verbose, remap --dev-file <each node> --only-if-keyboard --verbose, with every exclude set. All cases are distinct by construction; non-trivial = sequences of >=2 entries, exclusion cases where a pattern matches, and every end-to-end case.", maxlen, k, sets.len()));
  o.cov("samples", json!([{"sequence": ["atkbd", "gaming-mouse"], "text": format!("{}{}", menu[0].text, menu[2].text), "keyboards": crate::keyboard_listing::verif_extract_keyboards(&format!("{}{}", menu[0].text, menu[2].text))}]));
  o.assumptions = vec!["device entries are modelled on the kernel's /proc/bus/input/devices format (every entry starts with its I: line)".into(), "the end-to-end tier observes the selection through the tool's own output: the fabricated nodes are regular files, so the run stops at the first open after printing what it selected".into()];
  let mut seen: BTreeSet<String> = BTreeSet::new();
  for (c, d, a, n) in &fails {
    if !seen.insert(c.clone()) { continue; }
    let count: u64 = fails.iter().filter(|f| f.0 == *c).map(|f| f.3).sum();
    o.violations.push(Violation { property: "C16".into(), clause: c.clone(), signature: None, description: d.clone(), artefact: a.clone(), count });
  }
  o
}

// ---------------------------------------------------------------------------
// end-to-end tier

pub struct NsResult { cases: u64, invocations: u64, fails: Vec<(String, String, Value)> }

pub fn repo_binary() -> Result<String, String> {
  let out = Command::new("cargo").args(["build", "--release", "--offline"]).current_dir("/repo")
    .env("CARGO_TARGET_DIR", "/verif/.target-repo").env("CARGO_NET_OFFLINE", "true").env_remove("RUSTFLAGS").output().map_err(|e| format!("cargo: {}", e))?;
  if !out.status.success() { return Err(format!("building /repo failed: {}", String::from_utf8_lossy(&out.stderr).lines().rev().take(5).collect::<Vec<_>>().join(" | "))); }
  Ok("/verif/.target-repo/release/totalmapper".to_string())
}

fn namespace_tier(ctx: &Ctx, menu: &[Entry], single: &[(Vec<(String, String)>, Vec<(String, String, bool)>)], sets: &[Vec<&'static str>]) -> Result<NsResult, String> {
  // is unshare -m usable here?
  let probe = Command::new("unshare").args(["-m", "true"]).output();
  match probe { Ok(o) if o.status.success() => {}, _ => return Err("unavailable: `unshare -m` is refused on this machine; the in-process tier alone decides".into()) }
  let bin = repo_binary()?;
  let q = ctx.tier == Tier::Quick;
  // cases: which entries are present (singles; thorough adds all ordered pairs of distinct entries and the full menu)
  let k = menu.len();
  let mut seqs: Vec<Vec<usize>> = (0..k).map(|i| vec![i]).collect();
  seqs.push((0..k).collect());
  seqs.push((0..k).rev().collect());
  if !q { for a in 0..k { for b in 0..k { if a != b { seqs.push(vec![a, b]); } } } } else { seqs.push(vec![0, 2]); seqs.push(vec![2, 0]); seqs.push(vec![8, 1]); seqs.push(vec![5, 0]); seqs.push(vec![12, 3, 1]); for b in 10..k { seqs.push(vec![0, b]); seqs.push(vec![2, b]); seqs.push(vec![7, b]); } }
  let mut case_sets: Vec<&Vec<&'static str>> = if q { sets.iter().take(6).collect() } else { sets.iter().collect() };
  // The tool READS the device list from a file: a non-ASCII name must survive wherever it falls in that file.  Each of the
  // following sequences puts the entry "name-unicode" behind one filler entry whose name is padded so that the first byte of
  // its 'Ü' (2 bytes) or of its '⌨' (3 bytes) lands 1 or 2 bytes before a multiple of 4096 (read-buffer sizes are multiples
  // of it); the excluded-by-name and the not-excluded selection must be what the entry alone gives.
  let uni_set: &Vec<&'static str> = sets.iter().find(|s| s.len() == 1 && s[0] == "*Ü*").expect("glob *Ü* in the menu");
  if !case_sets.iter().any(|s| *s == uni_set) { case_sets.push(uni_set); }
  let mut menu: Vec<Entry> = menu.to_vec();
  let mut single: Vec<(Vec<(String, String)>, Vec<(String, String, bool)>)> = single.to_vec();
  let uni = menu.iter().position(|e| e.tag == "name-unicode").expect("name-unicode entry");
  let base = entry("filler", 40, Some(""), Some("/devices/LNXSYSTM:00/LNXPWRBN:00/input/input40"), Some("3"), Some(POWER_KEYS)).text.len();
  for boundary in [4096usize, 8192, 12288, 16384] { for (ch, back) in [('Ü', 1usize), ('⌨', 1), ('⌨', 2)] {
    let off = menu[uni].text.find(ch).unwrap();
    let want = boundary - back; // byte offset of the character's first byte in the whole file
    if want < base + off { continue; }
    let pad = want - base - off;
    let name: &'static str = Box::leak(format!("{}", "F".repeat(pad)).into_boxed_str());
    let e = entry("filler", 40, Some(name), Some("/devices/LNXSYSTM:00/LNXPWRBN:00/input/input40"), Some("3"), Some(POWER_KEYS));
    debug_assert_eq!(e.text.len() + off, want);
    single.push((crate::keyboard_listing::verif_extract_keyboards(&e.text), crate::keyboard_listing::verif_extract_input_devices(&e.text)));
    menu.push(e);
    seqs.push(vec![menu.len() - 1, uni]);
  } }
  let menu = &menu[..]; let single = &single[..];
  let k = menu.len();
  let spec = json!({
    "bin": bin,
    "entries": menu.iter().map(|e| json!({"tag": e.tag, "text": e.text, "sysfs": e.sysfs, "event": e.event, "name": e.name})).collect::<Vec<_>>(),
    "sequences": seqs, "exclude_sets": case_sets,
  });
  let dir = format!("/verif/.target/ns-{}", std::process::id());
  std::fs::create_dir_all(&dir).map_err(|e| e.to_string())?;
  let spec_path = format!("{}/spec.json", dir);
  std::fs::write(&spec_path, serde_json::to_string(&spec).unwrap()).map_err(|e| e.to_string())?;
  let me = std::env::current_exe().map_err(|e| e.to_string())?;
  let out = Command::new("unshare").arg("-m").arg(&me).arg("ns-worker").arg(&spec_path).output().map_err(|e| format!("unshare: {}", e))?;
  let _ = std::fs::remove_dir_all(&dir);
  if !out.status.success() { return Err(format!("namespace worker exited with {:?}: {}", out.status.code(), String::from_utf8_lossy(&out.stderr).lines().rev().take(8).collect::<Vec<_>>().join(" | "))); }
  let res: Value = serde_json::from_slice(&out.stdout).map_err(|e| format!("worker output: {} ({})", e, String::from_utf8_lossy(&out.stdout).chars().take(300).collect::<String>()))?;
  let mut r = NsResult { cases: 0, invocations: res["invocations"].as_u64().unwrap_or(0), fails: vec![] };
  for c in res["cases"].as_array().cloned().unwrap_or_default() {
    r.cases += 1;
    let seq: Vec<usize> = c["sequence"].as_array().unwrap().iter().map(|x| x.as_u64().unwrap() as usize).collect();
    let set: Vec<String> = c["excludes"].as_array().unwrap().iter().map(|x| x.as_str().unwrap().to_string()).collect();
    // expectation from the entries taken alone, the virtual-tree rule and the independent glob matcher
    let mut exp_listed: Vec<String> = vec![]; let mut exp_selected: Vec<String> = vec![];
    for &e in &seq {
      let en = &menu[e];
      let is_kb = !single[e].0.is_empty();
      let virt = en.sysfs.as_ref().map(|s| s.starts_with("/devices/virtual/input/")).unwrap_or(false);
      if is_kb && !virt && en.sysfs.is_some() {
        let path = format!("/dev/input/event{}", en.event);
        exp_listed.push(path.clone());
        if !set.iter().any(|g| glob_match(g, en.name.unwrap_or(""))) { exp_selected.push(path); }
      }
    }
    let strs = |v: &Value| -> Vec<String> { v.as_array().map(|a| a.iter().map(|x| x.as_str().unwrap_or("").to_string()).collect()).unwrap_or_default() };
    let listed = strs(&c["list_keyboards"]);
    let all_sel = strs(&c["all_keyboards_selected"]);
    let all_n = c["all_keyboards_count"].as_i64().unwrap_or(-1);
    let dev_sel = strs(&c["dev_file_selected"]);
    let ctxj = json!({"engine": "C16", "tier": "namespace", "entries": seq.iter().map(|e| menu[*e].tag).collect::<Vec<_>>(), "excludes": set, "observed": c});
    if set.is_empty() && listed != exp_listed { r.fails.push(("list-keyboards-wrong-set".into(), format!("entries {:?}: list_keyboards printed {:?}, expected {:?}", seq.iter().map(|e| menu[*e].tag).collect::<Vec<_>>(), listed, exp_listed), ctxj.clone())); }
    if all_sel != exp_selected || all_n != exp_selected.len() as i64 { r.fails.push(("all-keyboards-selects-wrong-set".into(), format!("entries {:?} excludes {:?}: --all-keyboards selected {:?} (Remapping {} devices), expected {:?}", seq.iter().map(|e| menu[*e].tag).collect::<Vec<_>>(), set, all_sel, all_n, exp_selected), ctxj.clone())); }
    if dev_sel != exp_selected { r.fails.push(("dev-file-selects-wrong-set".into(), format!("entries {:?} excludes {:?}: --dev-file --only-if-keyboard selected {:?}, expected {:?}", seq.iter().map(|e| menu[*e].tag).collect::<Vec<_>>(), set, dev_sel, exp_selected), ctxj.clone())); }
  }
  if r.cases == 0 { return Err("namespace worker returned no cases".into()); }
  Ok(r)
}

fn sh(cmd: &str, args: &[&str]) -> Result<(), String> {
  let o = Command::new(cmd).args(args).output().map_err(|e| format!("{} {:?}: {}", cmd, args, e))?;
  if !o.status.success() { return Err(format!("{} {:?}: {}", cmd, args, String::from_utf8_lossy(&o.stderr))); }
  Ok(())
}

/// Runs inside `unshare -m`: builds the fabricated trees under a private tmpfs, covers /dev,
/// /sys and /proc/bus with them and runs the real binary for every case.
pub fn ns_worker(spec_path: &str) -> i32 {
  let r = (|| -> Result<Value, String> {
    let spec: Value = serde_json::from_str(&std::fs::read_to_string(spec_path).map_err(|e| e.to_string())?).map_err(|e| e.to_string())?;
    let bin = spec["bin"].as_str().unwrap().to_string();
    sh("mount", &["--make-rprivate", "/"])?;
    // copy the binary somewhere that stays visible, then cover /dev first (so that nothing leaks to the real /dev)
    sh("mount", &["-t", "tmpfs", "tmpfs", "/mnt"])?;
    std::fs::copy(&bin, "/mnt/totalmapper").map_err(|e| e.to_string())?;
    for d in ["/mnt/procbus/input", "/mnt/sys/devices", "/mnt/dev/input"] { std::fs::create_dir_all(d).map_err(|e| e.to_string())?; }
    sh("mount", &["-t", "tmpfs", "tmpfs", "/dev"])?;
    std::fs::create_dir_all("/dev/input").map_err(|e| e.to_string())?;
    // child processes need /dev/null (std opens it for the stdin of captured commands)
    for (name, minor) in [("/dev/null\0", 3u32), ("/dev/zero\0", 5), ("/dev/urandom\0", 9)] {
      let rc = unsafe { libc::mknod(name.as_ptr() as *const libc::c_char, libc::S_IFCHR | 0o666, libc::makedev(1, minor)) };
      if rc != 0 { return Err(format!("mknod {}: {}", name.trim_end_matches('\0'), std::io::Error::last_os_error())); }
    }
    sh("mount", &["--bind", "/mnt/sys", "/sys"])?;
    sh("mount", &["--bind", "/mnt/procbus", "/proc/bus"])?;
    let entries = spec["entries"].as_array().unwrap().clone();
    let mut cases = vec![];
    let mut invocations = 0u64;
    for seq in spec["sequences"].as_array().unwrap() {
      let seq: Vec<usize> = seq.as_array().unwrap().iter().map(|x| x.as_u64().unwrap() as usize).collect();
      // rebuild the fabricated world for this sequence
      let _ = std::fs::remove_dir_all("/sys/devices"); std::fs::create_dir_all("/sys/devices").map_err(|e| e.to_string())?;
      let _ = std::fs::remove_dir_all("/dev/input"); std::fs::create_dir_all("/dev/input").map_err(|e| e.to_string())?;
      let mut text = String::new();
      let mut nodes = vec![];
      for &e in &seq {
        let en = &entries[e];
        text.push_str(en["text"].as_str().unwrap());
        let ev = en["event"].as_u64().unwrap();
        let node = format!("/dev/input/event{}", ev);
        std::fs::write(&node, b"").map_err(|e| e.to_string())?;
        nodes.push(node);
        if let Some(s) = en["sysfs"].as_str() {
          let d = format!("/sys{}/event{}", s, ev);
          std::fs::create_dir_all(&d).map_err(|e| e.to_string())?;
          std::fs::write(format!("{}/uevent", d), format!("MAJOR=13\nMINOR={}\nDEVNAME=input/event{}\n", 64 + ev, ev)).map_err(|e| e.to_string())?;
        }
      }
      std::fs::write("/proc/bus/input/devices", &text).map_err(|e| e.to_string())?;
      for set in spec["exclude_sets"].as_array().unwrap() {
        let set: Vec<String> = set.as_array().unwrap().iter().map(|x| x.as_str().unwrap().to_string()).collect();
        let mut case = json!({"sequence": seq, "excludes": set});
        if set.is_empty() {
          let o = Command::new("/mnt/totalmapper").arg("list_keyboards").output().map_err(|e| e.to_string())?; invocations += 1;
          let lines: Vec<String> = String::from_utf8_lossy(&o.stdout).lines().filter_map(|l| l.rsplit_once(": ").map(|x| x.1.to_string())).collect();
          case["list_keyboards"] = json!(lines);
        }
        let mut ex_args: Vec<String> = vec![];
        for g in &set { ex_args.push("--exclude".into()); ex_args.push(g.clone()); }
        // --all-keyboards
        let o = Command::new("/mnt/totalmapper").args(["remap", "--default-layout", "caps-for-movement", "--all-keyboards", "--verbose"]).args(&ex_args).output().map_err(|e| e.to_string())?; invocations += 1;
        let err = String::from_utf8_lossy(&o.stderr).to_string();
        let mut sel = vec![]; let mut in_list = false; let mut count: i64 = -1;
        for l in err.lines() {
          if l.starts_with("Got the list of keyboards:") { in_list = true; continue; }
          if l.starts_with("Remapping ") { in_list = false; count = l.split_whitespace().nth(1).and_then(|x| x.parse().ok()).unwrap_or(-1); continue; }
          if in_list && l.starts_with(" * ") { if !l.ends_with("(excluded)") { sel.push(l[3..].trim().trim_matches('"').to_string()); } }
        }
        case["all_keyboards_selected"] = json!(sel); case["all_keyboards_count"] = json!(count);
        // --dev-file for every node, one at a time (the run stops at the first open)
        let mut dsel = vec![];
        for n in &nodes {
          let o = Command::new("/mnt/totalmapper").args(["remap", "--default-layout", "caps-for-movement", "--dev-file", n, "--only-if-keyboard", "--verbose"]).args(&ex_args).output().map_err(|e| e.to_string())?; invocations += 1;
          let err = String::from_utf8_lossy(&o.stderr);
          if err.lines().any(|l| l.starts_with("Remapping 1 devices")) { dsel.push(n.clone()); }
          else if !err.lines().any(|l| l.starts_with("Remapping 0 devices")) { return Err(format!("unexpected output for --dev-file {}: {}", n, err)); }
        }
        case["dev_file_selected"] = json!(dsel);
        cases.push(case);
      }
    }
    Ok(json!({"cases": cases, "invocations": invocations}))
  })();
  match r {
    Ok(v) => { println!("{}", v); 0 }
    Err(e) => { eprintln!("ns-worker: {}", e); 3 }
  }
}

pub fn replay_artefact(v: &Value) -> i32 {
  println!("{}", serde_json::to_string_pretty(v).unwrap());
  if let Some(t) = v["text"].as_str() {
    println!("list_keyboards extractor: {:?}", crate::keyboard_listing::verif_extract_keyboards(t));
    println!("input-device extractor:   {:?}", crate::keyboard_listing::verif_extract_input_devices(t));
  }
  0
}
