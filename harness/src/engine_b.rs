// Engine B — stateless exploration of the real per-device event loop (DESIGN §4).
//
// Every execution runs the unmodified `do_remapping_loop_one_device` (through the
// hook `run_one_device`) from its start to its return under one complete sequence of
// environment choices; a DFS with prefix replay enumerates all choice sequences within
// the budgets (events, time-outs, deviations).  The environment is a scripted driver
// with edge-triggered readiness and a virtual clock; it decides what arrives when, how
// arrivals are batched, which device is listed first, when time-outs fire and how late.
use crate::common::*;
use crate::key_transforms::{Mapper, ResultingRepeat};
use crate::keys::Event::{Pressed, Released};
use crate::keys::{Event, KeyCode, Layout, Mapping, Repeat};
use crate::remapping_loop::verif_hooks::*;
use serde_json::{json, Value};
use std::collections::{BTreeMap, HashSet, VecDeque};
use std::hash::{Hash, Hasher};
use std::sync::atomic::{AtomicUsize, Ordering};
use std::sync::Mutex;
use std::time::Duration;

#[derive(Clone, Debug, PartialEq, Eq, Hash)]
pub enum Item { K(Event), T(bool), EndK, EndT, Burst(usize) }

#[derive(Clone, Debug, PartialEq, Eq, Hash)]
pub enum PollRet { Dev(Vec<u8>), TimedOut, Interrupted } // 0 keyboard, 1 tablet

#[derive(Clone, Debug, PartialEq, Eq, Hash)]
pub enum Call {
  Register,
  Poll { timeout_us: Option<u64>, at_us: u64, ret: PollRet, after_us: u64, unread_k: bool, unread_t: bool, label: &'static str, unread_events: Vec<Event> },
  NextK { at_us: u64, ev: Option<Event>, end: bool },
  NextT { at_us: u64, ev: Option<bool>, end: bool },
  Send { at_us: u64, evs: Vec<Event> },
  Failed { what: &'static str },
}

#[derive(Clone, Debug)]
pub struct EnvCfg {
  pub alphabet: Vec<KeyCode>,
  pub max_events: usize,   // keyboard + tablet events that may arrive
  pub max_tablet: usize,   // of which tablet events
  pub devs: usize,         // deviations: spurious time-out, interruption, late arrival, late timer
  pub ticks: usize,        // TimedOut answers to armed time-outs
  pub tablet_end: bool,    // the tablet switch may report that it is gone
  pub late_us: Vec<u64>,   // lateness menu for late timers
  pub exact_deadline_arrival: bool,
  pub max_calls: usize,
  /// burst mode: when non-empty the key events are this fixed script and an arrival is one of `burst_sizes` many of them at once
  pub script: Vec<Event>,
  pub burst_sizes: Vec<usize>,
  pub max_bursts: usize,
  /// every notification carries exactly one event (trades batching for history length)
  pub single_event_wakeups: bool,
  /// the loop's `verbose` argument (its diagnostics go to stderr, which the explorer points at /dev/null meanwhile)
  pub verbose: bool,
  /// deviation: a device wake-up with nothing to read (the readers skip records that are not key / tablet-mode changes)
  pub empty_wakeups: bool,
}

pub struct Env<'a> {
  cfg: &'a EnvCfg,
  prefix: &'a [u16],
  pos: usize,
  pub trace: Vec<(u16, u16)>, // (choice, menu size)
  kq: VecDeque<Item>,
  tq: VecDeque<Item>,
  k_edge: bool,
  t_edge: bool,
  events_left: usize,
  tablet_left: usize,
  devs_left: usize,
  ticks_left: usize,
  pub log: Vec<Call>,
  pub calls: usize,
  fail_at: Option<usize>,
  pub replay_divergence: bool,
  pub horizon: bool,
  end_delivered: bool,
  script_pos: usize,
  bursts_left: usize,
}

impl<'a> Env<'a> {
  fn new(cfg: &'a EnvCfg, prefix: &'a [u16], fail_at: Option<usize>) -> Env<'a> {
    Env { cfg, prefix, pos: 0, trace: vec![], kq: VecDeque::new(), tq: VecDeque::new(), k_edge: false, t_edge: false,
      events_left: cfg.max_events, tablet_left: cfg.max_tablet, devs_left: cfg.devs, ticks_left: cfg.ticks, log: vec![], calls: 0, fail_at,
      replay_divergence: false, horizon: false, end_delivered: false, script_pos: 0, bursts_left: cfg.max_bursts }
  }
  fn choose(&mut self, n: usize) -> usize {
    debug_assert!(n >= 1);
    let c = if self.pos < self.prefix.len() {
      let c = self.prefix[self.pos] as usize;
      if c >= n { self.replay_divergence = true; 0 } else { c }
    } else { 0 };
    self.pos += 1;
    self.trace.push((c as u16, n as u16));
    c
  }
  fn arrival_menu(&self) -> Vec<Item> {
    // simplest first: end-of-device, key events, tablet events
    let mut m = vec![];
    if !self.end_delivered { m.push(Item::EndK); }
    if !self.cfg.script.is_empty() {
      if !self.end_delivered && self.bursts_left > 0 { for n in &self.cfg.burst_sizes { if self.script_pos + n <= self.cfg.script.len() { m.push(Item::Burst(*n)); } } }
      if !self.end_delivered && self.tablet_left > 0 { m.push(Item::T(true)); m.push(Item::T(false)); }
      return m;
    }
    if self.events_left > 0 && !self.end_delivered {
      for k in &self.cfg.alphabet { m.push(Item::K(Pressed(*k))); m.push(Item::K(Released(*k))); }
      if self.tablet_left > 0 { m.push(Item::T(true)); m.push(Item::T(false)); }
    }
    if self.cfg.tablet_end && !self.end_delivered { m.push(Item::EndT); }
    m
  }
  fn deliver(&mut self, it: Item) {
    match &it {
      Item::EndK => { self.end_delivered = true; self.kq.push_back(it); self.k_edge = true; }
      Item::EndT => { self.end_delivered = true; self.tq.push_back(it); self.t_edge = true; }
      Item::K(_) => { self.events_left -= 1; self.kq.push_back(it); self.k_edge = true; }
      Item::T(_) => { self.events_left = self.events_left.saturating_sub(1); self.tablet_left -= 1; self.tq.push_back(it); self.t_edge = true; }
      Item::Burst(n) => { for i in 0..*n { self.kq.push_back(Item::K(self.cfg.script[self.script_pos + i].clone())); } self.script_pos += n; self.bursts_left -= 1; self.k_edge = true; }
    }
  }
  fn tick(&mut self, what: &'static str) -> Result<(), String> {
    self.calls += 1;
    if Some(self.calls) == self.fail_at { self.log.push(Call::Failed { what }); return Err(format!("injected-{}", self.calls)); }
    if self.calls > self.cfg.max_calls { self.horizon = true; return Err("verification horizon exceeded".into()); }
    Ok(())
  }
  fn report_edges(&mut self) -> Vec<u8> {
    let both = self.k_edge && self.t_edge;
    let order = if both { self.choose(2) } else { 0 };
    let v = if both { if order == 0 { vec![0, 1] } else { vec![1, 0] } } else if self.k_edge { vec![0] } else { vec![1] };
    self.k_edge = false; self.t_edge = false;
    v
  }
}

fn to_vpoll(r: &PollRet) -> VPoll {
  match r {
    PollRet::TimedOut => VPoll::TimedOut,
    PollRet::Interrupted => VPoll::Interrupted,
    PollRet::Dev(v) => VPoll::DeviceEvent(v.iter().map(|d| if *d == 0 { VDevice::Keyboard } else { VDevice::Tablet }).collect()),
  }
}

impl<'a> ScriptedDriver for Env<'a> {
  fn register_poll(&mut self) -> Result<(), String> { self.tick("register_poll")?; self.log.push(Call::Register); Ok(()) }

  fn poll(&mut self, timeout: Option<Duration>) -> Result<VPoll, String> {
    self.tick("poll")?;
    let at = clock_now_us();
    let t_us = timeout.map(|d| d.as_micros() as u64);
    // data the loop was already told about (edge reported) and has not read
    let unread_k = !self.kq.is_empty() && !self.k_edge;
    let unread_t = !self.tq.is_empty() && !self.t_edge;
    let unread_events: Vec<Event> = if unread_k { self.kq.iter().filter_map(|it| if let Item::K(e) = it { Some(e.clone()) } else { None }).collect() } else { vec![] };
    let ret: PollRet;
    let label: &'static str;
    if self.k_edge || self.t_edge {
      label = "pending-edge";
      ret = PollRet::Dev(self.report_edges());
    } else {
      let am = self.arrival_menu();
      let n_arr = am.len();
      let mut menu: Vec<&'static str> = vec![];
      // a time-out of more than ~11 days never comes within any history considered here
      if t_us.map(|t| t < 1_000_000_000_000).unwrap_or(false) && self.ticks_left > 0 {
        menu.push("timeout");
        if self.devs_left > 0 { for _ in &self.cfg.late_us { menu.push("timeout-late"); } }
      }
      if t_us.is_none() && self.devs_left > 0 { menu.push("timeout-spurious"); }
      if self.devs_left > 0 { menu.push("interrupted"); }
      // a wake-up that carries nothing the loop can use (only records the readers skip: sync, scan codes, other switches)
      if self.devs_left > 0 && self.cfg.empty_wakeups && !self.end_delivered { menu.push("empty-wakeup-k"); if self.cfg.max_tablet > 0 || self.cfg.tablet_end { menu.push("empty-wakeup-t"); } }
      if n_arr + menu.len() == 0 {
        // nothing can happen any more (device gone and read): a faithful poll would block for ever
        self.horizon = true; self.log.push(Call::Poll { timeout_us: t_us, at_us: at, ret: PollRet::Interrupted, after_us: at, unread_k, unread_t, label: "blocked", unread_events: vec![] });
        return Err("verification horizon: poll would block for ever".into());
      }
      let c = self.choose(n_arr + menu.len());
      if c < n_arr {
        label = "arrival";
        if let Some(t) = t_us.filter(|t| *t < 1_000_000_000_000) {
          if t > 1 {
            // 0: at once; 1: just before the deadline; 2: exactly at it; 3 (a deviation): the wake-up itself comes late -
            // the event arrived in time but poll reports it 1 ms after the deadline has passed
            let nd = (if self.cfg.exact_deadline_arrival { 3 } else { 2 }) + if self.devs_left > 0 { 1 } else { 0 };
            match self.choose(nd) { 1 => clock_advance_us(t - 1), 2 if self.cfg.exact_deadline_arrival => clock_advance_us(t), 2 | 3 => { self.devs_left -= 1; clock_advance_us(t + 1000); } _ => {} }
          }
        }
        let first = am[c].clone();
        let mut stop = matches!(first, Item::EndK | Item::EndT | Item::Burst(_)) || self.cfg.single_event_wakeups;
        self.deliver(first);
        while !stop {
          let am2 = self.arrival_menu();
          if am2.is_empty() { break; }
          let more = self.choose(1 + am2.len());
          if more == 0 { break; }
          let it = am2[more - 1].clone();
          stop = matches!(it, Item::EndK | Item::EndT);
          self.deliver(it);
        }
        ret = PollRet::Dev(self.report_edges());
      } else {
        let what = menu[c - n_arr];
        match what {
          "timeout" => { self.ticks_left -= 1; clock_advance_us(t_us.unwrap()); label = "timeout"; ret = PollRet::TimedOut; }
          "timeout-late" => {
            // which lateness: position among the timeout-late entries
            let first_late = menu.iter().position(|m| *m == "timeout-late").unwrap();
            let li = c - n_arr - first_late;
            self.ticks_left -= 1; self.devs_left -= 1;
            clock_advance_us(t_us.unwrap() + self.cfg.late_us[li]);
            label = "timeout-late"; ret = PollRet::TimedOut;
          }
          "timeout-spurious" => { self.devs_left -= 1; label = "timeout-spurious"; ret = PollRet::TimedOut; }
          "empty-wakeup-k" | "empty-wakeup-t" => {
            self.devs_left -= 1; if let Some(t) = t_us.filter(|t| *t < 1_000_000_000_000) { if t > 1 { clock_advance_us(t / 2); } }
            label = "empty-wakeup"; ret = PollRet::Dev(vec![if what == "empty-wakeup-k" { 0 } else { 1 }]);
          }
          _ => { self.devs_left -= 1; if let Some(t) = t_us.filter(|t| *t < 1_000_000_000_000) { if t > 1 { clock_advance_us(t / 2); } } label = "interrupted"; ret = PollRet::Interrupted; }
        }
      }
    }
    let v = to_vpoll(&ret);
    self.log.push(Call::Poll { timeout_us: t_us, at_us: at, ret, after_us: clock_now_us(), unread_k, unread_t, label, unread_events });
    Ok(v)
  }

  fn next_keyboard(&mut self) -> Result<VNext<Event>, String> {
    self.tick("next_keyboard")?;
    let at = clock_now_us();
    if self.kq.is_empty() && self.devs_left > 0 && self.events_left > 0 && !self.end_delivered {
      // late arrival: the next event lands between two reads; it is returned now and leaves an edge behind
      let menu: Vec<Item> = self.arrival_menu().into_iter().filter(|i| matches!(i, Item::K(_))).collect();
      let c = self.choose(1 + menu.len());
      if c > 0 { self.devs_left -= 1; self.deliver(menu[c - 1].clone()); }
    }
    match self.kq.pop_front() {
      None => { self.log.push(Call::NextK { at_us: at, ev: None, end: false }); Ok(VNext::Busy) }
      Some(Item::EndK) => { self.log.push(Call::NextK { at_us: at, ev: None, end: true }); Ok(VNext::End) }
      Some(Item::K(e)) => { self.log.push(Call::NextK { at_us: at, ev: Some(e.clone()), end: false }); Ok(VNext::One(e)) }
      Some(_) => unreachable!(),
    }
  }

  fn next_tablet(&mut self) -> Result<VNext<TableModeEvent>, String> {
    self.tick("next_tablet")?;
    let at = clock_now_us();
    match self.tq.pop_front() {
      None => { self.log.push(Call::NextT { at_us: at, ev: None, end: false }); Ok(VNext::Busy) }
      Some(Item::EndT) => { self.log.push(Call::NextT { at_us: at, ev: None, end: true }); Ok(VNext::End) }
      Some(Item::T(b)) => { self.log.push(Call::NextT { at_us: at, ev: Some(b), end: false }); Ok(VNext::One(if b { TableModeEvent::On } else { TableModeEvent::Off })) }
      Some(_) => unreachable!(),
    }
  }

  fn send(&mut self, evs: &Vec<Event>) -> Result<(), String> {
    self.tick("send")?;
    self.log.push(Call::Send { at_us: clock_now_us(), evs: evs.clone() });
    Ok(())
  }
}

pub struct Exec {
  pub trace: Vec<(u16, u16)>,
  pub log: Vec<Call>,
  pub calls: usize,
  pub result: Result<(), String>,
  pub replay_divergence: bool,
  pub horizon: bool,
  pub now_calls: u64,
  pub panicked: Option<String>,
}

pub fn run_once(layout: &Layout, cfg: &EnvCfg, prefix: &[u16], fail_at: Option<usize>) -> Exec {
  clock_reset();
  let mut env = Env::new(cfg, prefix, fail_at);
  let r = std::panic::catch_unwind(std::panic::AssertUnwindSafe(|| run_one_device_verbose(&mut env, layout.clone(), cfg.verbose)));
  let (result, panicked) = match r { Ok(r) => (r, None), Err(p) => (Err("panic".to_string()), Some(p.downcast_ref::<String>().cloned().or(p.downcast_ref::<&str>().map(|s| s.to_string())).unwrap_or_default())) };
  Exec { trace: env.trace, log: env.log, calls: env.calls, result, replay_divergence: env.replay_divergence, horizon: env.horizon, now_calls: clock_now_calls(), panicked }
}

// ---------------------------------------------------------------------------
// Oracle: the first discrepancy of an execution, classified by where it occurs

#[derive(Clone, Debug)]
pub struct Discrepancy { pub prop: &'static str, pub also: Vec<&'static str>, pub clause: &'static str, pub detail: String, pub at_call: usize }

fn fold(held: &mut Vec<KeyCode>, evs: &[Event]) {
  for e in evs { match e { Pressed(k) => { if !held.contains(k) { held.push(*k); } } Released(k) => held.retain(|x| x != k) } }
}

fn chord_for(keys: &[KeyCode], held: &[KeyCode]) -> Vec<Event> {
  let mut c = vec![];
  for k in keys { if !held.contains(k) { c.push(Pressed(*k)); } }
  for k in keys.iter().rev() { if !held.contains(k) { c.push(Released(*k)); } }
  c
}

enum Expect { Step(Vec<Event>), Chord(Vec<Event>), Reset }

pub struct Stats { pub chords: u64, pub chords_with_held_key: u64, pub steps_sent: u64, pub resets_sent: u64, pub tablet_reads_skipped: u64, pub timers_started: u64, pub timers_cancelled_by_event: u64, pub late_ticks: u64, pub ignored_event_during_timer: u64, pub multi_event_wakeups: u64, pub ended: bool }

pub fn judge(layout: &Layout, x: &Exec) -> (Option<Discrepancy>, Stats) {
  let mut st = Stats { chords: 0, chords_with_held_key: 0, steps_sent: 0, resets_sent: 0, tablet_reads_skipped: 0, timers_started: 0, timers_cancelled_by_event: 0, late_ticks: 0, ignored_event_during_timer: 0, multi_event_wakeups: 0, ended: false };
  let mut mref = Mapper::for_layout(layout);
  let mut tablet = false;
  let mut timer: Option<(Vec<KeyCode>, u64, u64)> = None; // keys, due_us, interval_us
  // keys held on the virtual keyboard: fold of what was actually written / of what the reference expects to be written
  let mut held: Vec<KeyCode> = vec![];
  let mut held_exp: Vec<KeyCode> = vec![];
  // writes the loop owes, in the order it read the events that cause them; they must be discharged in this order and
  // before the loop goes back to waiting (the statements do not require each one before the very next read)
  let mut owed: VecDeque<Expect> = VecDeque::new();
  // a chord is owed as the immediate reaction to the time-out
  let mut chord: Option<Vec<Event>> = None;
  let mut last_poll_timed_out = false;
  let mut reads_this_wakeup = 0;
  // physical key state as the loop has read it since the last fresh start (decides which events are key *changes*)
  let mut phys: Vec<KeyCode> = vec![];
  let mut timer_cancelled_by_tablet = false;
  // once a tablet event has been read, what the loop writes for key events is C12's subject ("resumes as from a fresh start"; C10 sets tablet mode aside)
  let mut seen_tablet = false;
  let absorbable: Vec<KeyCode> = layout.mappings.iter().flat_map(|m| m.absorbing.iter().cloned()).collect();
  let d = |prop, clause, detail: String, at| Some(Discrepancy { prop, also: vec![], clause, detail, at_call: at });
  let step_prop = |seen_tablet: bool| if seen_tablet { "C12" } else { "C10" };
  for (i, c) in x.log.iter().enumerate() {
    if matches!(c, Call::Failed { .. }) { break; }
    // a due chord must be the very next driver call after the time-out
    if let Some(exp) = chord.take() {
      match c {
        Call::Send { evs, .. } => {
          if *evs != exp { return (d("C11", "wrong-chord-payload", format!("chord written {} expected {} (keys held on the virtual keyboard: {:?})", ev_str(evs), ev_str(&exp), held), i), st); }
          let before = held.clone(); fold(&mut held, evs);
          if held != before { return (d("C11", "chord-not-transient", format!("chord {} changed the held set from {:?} to {:?}", ev_str(evs), before, held), i), st); }
          st.chords += 1; last_poll_timed_out = false; continue;
        }
        other => {
          if !exp.is_empty() { return (d("C11", "due-chord-not-written", format!("time-out at the due time was not answered by the chord {}; next call {:?}", ev_str(&exp), other), i), st); }
          // an empty chord (all its keys already held) may be skipped: fall through to handle `other`
        }
      }
    }
    match c {
      Call::Register => {}
      Call::Failed { .. } => { break; }
      Call::Send { evs, .. } => {
        // the device-level half of C19: against the fold of everything written so far, a key is pressed only when it is up
        // and released only when it is down (timer chords are C11's, handled above).  A write that is wrong for another
        // reason as well belongs to both statements; the resumption after a tablet-mode change is also C06's subject.
        let redundant: Option<Event> = { let mut h = held.clone(); let mut bad = None; for e in evs.iter() { match e { Pressed(k) => { if h.contains(k) { bad = Some(e.clone()); break; } h.push(*k); } Released(k) => { if !h.contains(k) { bad = Some(e.clone()); break; } h.retain(|x| x != k); } } } bad };
        let held_at_send = held.clone();
        let mut dd: Option<Discrepancy> = (|| {
        if st.ended { return d("C10", "write-after-end-of-device", format!("{} written after the device reported it is gone", ev_str(evs)), i); }
        match owed.pop_front() {
          Some(Expect::Step(exp)) => {
            if *evs != exp { return d(step_prop(seen_tablet), if seen_tablet { "not-a-fresh-start-after-tablet-mode" } else { "wrong-step-output-written" }, format!("written {} expected {} output {}", ev_str(evs), if seen_tablet { "a fresh mapper's" } else { "the mapper's" }, ev_str(&exp)), i); }
            fold(&mut held, evs); st.steps_sent += 1; last_poll_timed_out = false;
          }
          Some(Expect::Reset) => {
            fold(&mut held, evs);
            if !held.is_empty() { return d("C12", "reset-leaves-keys-held", format!("reset batch {} leaves {:?} held", ev_str(evs), held), i); }
            if evs.iter().any(|e| matches!(e, Pressed(_))) { return d("C12", "reset-presses-keys", format!("reset batch {} presses keys", ev_str(evs)), i); }
            st.resets_sent += 1; last_poll_timed_out = false;
          }
          Some(Expect::Chord(_)) => unreachable!(),
          None => {
            if tablet { return d("C12", "write-during-tablet-mode", format!("{} written while in tablet mode", ev_str(evs)), i); }
            if last_poll_timed_out {
              // "no repeat chord is written at any other time" (C11); when the timer had been cancelled by a tablet-mode change it is
              // equally a failure to "resume as from a fresh start" (C12): the discrepancy belongs to both statements
              let mut dd = d("C11", "chord-at-wrong-time", format!("{} written after a time-out although no chord was due (timer {:?}{})", ev_str(evs), timer.as_ref().map(|t| (t.1, t.2)), if timer_cancelled_by_tablet { ", cancelled by a tablet-mode change" } else { "" }), i);
              if timer_cancelled_by_tablet { if let Some(x) = dd.as_mut() { x.also.push("C12"); x.also.push("C06"); } }
              return dd;
            }
            return d(step_prop(seen_tablet), if seen_tablet { "not-a-fresh-start-after-tablet-mode" } else { "unexpected-write" }, format!("{} written although {} produced no output to write", ev_str(evs), if seen_tablet { "a mapper started afresh at the last tablet-mode change" } else { "the mapper" }), i);
          }
        }
        None })();
        if dd.is_none() { if let Some(e) = &redundant { dd = d("C19", "redundant-event-written-to-device", format!("{} written while {:?} are held on the virtual keyboard: {:?} is redundant", ev_str(evs), held_at_send, e), i); } }
        if let Some(mut x) = dd {
          if redundant.is_some() && x.prop != "C19" { x.also.push("C19"); }
          if x.clause == "not-a-fresh-start-after-tablet-mode" { x.also.push("C06"); }
          return (Some(x), st);
        }
      }
      Call::Poll { timeout_us, at_us, ret, after_us, unread_k, unread_t, label, unread_events } => {
        if st.ended { return (d("C10", "keeps-waiting-after-end-of-device", "poll called after the device reported it is gone".to_string(), i), st); }
        if reads_this_wakeup > 1 { st.multi_event_wakeups += 1; }
        reads_this_wakeup = 0;
        // everything owed must have been written before the loop goes back to waiting
        let mut dd: Option<Discrepancy> = match owed.front() {
          Some(Expect::Step(exp)) => d(step_prop(seen_tablet), if seen_tablet { "not-a-fresh-start-after-tablet-mode" } else { "waits-with-mapper-output-unwritten" }, format!("poll called at {}us while the output {} of an event already read is unwritten", at_us, ev_str(exp)), i),
          Some(Expect::Reset) => d("C12", "held-keys-not-released-at-once", format!("{:?} held at the tablet-mode switch and not released before the loop went back to waiting", held), i),
          _ => None
        };
        if dd.is_none() && *unread_k { dd = d("C10", "waits-while-notified-events-unread", format!("poll called at {}us while keyboard events already signalled are unread", at_us), i); }
        if dd.is_none() && *unread_t { dd = d("C12", "waits-while-tablet-events-unread", format!("poll called at {}us while tablet events already signalled are unread", at_us), i); }
        // The device-level halves of C01, C02 and C05: whenever the loop goes back to waiting, what is held on the virtual
        // keyboard (fold of everything written) must stand in the stated relation to what is held PHYSICALLY - by all events the
        // loop has read or has been notified about.  Judged only while no tablet event has been read (tablet mode is C12's).
        if !seen_tablet && !tablet {
          let mut phys_true = phys.clone();
          for e in unread_events.iter() { match e { Pressed(k) => { if !phys_true.contains(k) { phys_true.push(*k); } } Released(k) => phys_true.retain(|x| x != k) } }
          let mentioned = |k: &KeyCode| layout.mappings.iter().any(|m| m.from.contains(k) || m.to.contains(k) || m.absorbing.contains(k) || matches!(&m.repeat, crate::keys::Repeat::Special { keys, .. } if keys.contains(k)));
          let norepeat_layout = layout.mappings.iter().any(|m| m.repeat != crate::keys::Repeat::Normal);
          let mut state: Vec<(&'static str, &'static str, String)> = vec![];
          if phys_true.is_empty() && !held.is_empty() { state.push(("C01", "device-level: keys-held-with-nothing-held-physically", format!("the loop goes back to waiting at {}us with {:?} held on the virtual keyboard although every physical key has been released", at_us, held))); }
          if let Some(x) = held.iter().find(|x| !phys_true.contains(x) && !layout.mappings.iter().any(|m| m.to.contains(x) && m.from.iter().all(|f| phys_true.contains(f)))) { state.push(("C02", "device-level: unjustified-key-held-on-device", format!("the loop goes back to waiting at {}us with {:?} held on the virtual keyboard; physically held: {:?}; no mapping with all its trigger keys held outputs it", at_us, x, phys_true))); }
          if let Some(f) = held.iter().find(|f| !mentioned(f) && !phys_true.contains(f)).or(phys_true.iter().find(|f| !mentioned(f) && !held.contains(f) && (!norepeat_layout || crate::corpus::is_mod(f)))) { state.push(("C05", "device-level: uninvolved-key-differs-from-its-physical-state", format!("the loop goes back to waiting at {}us with the uninvolved key {:?} {} on the virtual keyboard while it is {} physically", at_us, f, if held.contains(f) { "down" } else { "up" }, if phys_true.contains(f) { "down" } else { "up" }))); }
          match dd.as_mut() {
            Some(x) => { for (p, _, _) in &state { if x.prop != *p && !x.also.contains(p) { x.also.push(p); } } }
            None => { if let Some((p, c, det)) = state.into_iter().next() { dd = d(p, c, det, i); } }
          }
        }
        if let Some(x) = dd { return (Some(x), st); }
        last_poll_timed_out = *ret == PollRet::TimedOut;
        if let (Some((keys, due, interval)), false) = (timer.clone(), tablet) {
          // (1) waits for at most the time left (1 ms once overdue)
          let limit = if *at_us >= due { 1000 } else { due - at_us };
          match timeout_us {
            None => return (d("C11", "waits-without-timeout-while-repeat-pending", format!("poll without time-out at {}us although a chord is due at {}us", at_us, due), i), st),
            Some(t) if *t > limit => return (d("C11", "waits-too-long", format!("poll armed with {}us at {}us although the chord is due at {}us", t, at_us, due), i), st),
            _ => {}
          }
          if *ret == PollRet::TimedOut && *after_us >= due {
            if *after_us > due { st.late_ticks += 1; }
            if keys.iter().any(|k| held.contains(k)) { st.chords_with_held_key += 1; }
            chord = Some(chord_for(&keys, &held));
            timer = Some((keys, due.saturating_add(interval), interval));
          }
        }
        let _ = label;
      }
      Call::NextK { at_us, ev, end } => {
        if *end {
          // nothing read before the device went away may be left unwritten, and nothing is written afterwards
          match owed.front() {
            Some(Expect::Step(exp)) => return (d(step_prop(seen_tablet), "output-unwritten-at-end-of-device", format!("the output {} of an event read before the device went away was never written", ev_str(exp)), i), st),
            Some(Expect::Reset) => return (d("C12", "held-keys-not-released-at-once", "reset batch unwritten when the device went away".to_string(), i), st),
            _ => {}
          }
          st.ended = true; continue;
        }
        if let Some(ev) = ev {
          reads_this_wakeup += 1;
          if tablet { st.tablet_reads_skipped += 1; continue; }
          let r = mref.step(ev.clone());
          if !r.events.is_empty() { fold(&mut held_exp, &r.events); owed.push_back(Expect::Step(r.events.clone())); }
          // is this event a key change?  decided from the physical history, not from the mapper's answer
          // (for a key some mapping can absorb the mapper's own view is the only one available)
          let (k, press) = match ev { Pressed(k) => (*k, true), Released(k) => (*k, false) };
          let held_before = phys.contains(&k);
          let acted = if absorbable.contains(&k) { r.repeat != ResultingRepeat::NoChange } else { press != held_before };
          if press { if !held_before { phys.push(k); } } else { phys.retain(|x| *x != k); }
          match (acted, r.repeat) {
            (true, ResultingRepeat::Repeating { keys, delay_ms, interval_ms }) => { st.timers_started += 1; timer_cancelled_by_tablet = false; timer = Some((keys, at_us.saturating_add((delay_ms as u64).saturating_mul(1000)), (interval_ms as u64).saturating_mul(1000))); }
            (true, _) => { if timer.is_some() { st.timers_cancelled_by_event += 1; } timer = None; }
            (false, _) => { if timer.is_some() { st.ignored_event_during_timer += 1; } }
          }
        }
      }
      Call::NextT { ev, end, .. } => {
        if *end {
          match owed.front() {
            Some(Expect::Step(exp)) => return (d(step_prop(seen_tablet), "output-unwritten-at-end-of-device", format!("the output {} of an event read before the device went away was never written", ev_str(exp)), i), st),
            Some(Expect::Reset) => return (d("C12", "held-keys-not-released-at-once", "reset batch unwritten when the device went away".to_string(), i), st),
            _ => {}
          }
          st.ended = true; continue;
        }
        if let Some(b) = ev {
          tablet = *b;
          seen_tablet = true;
          if timer.is_some() { timer_cancelled_by_tablet = true; }
          timer = None;
          phys.clear();
          mref = Mapper::for_layout(layout); // "resumes as from a fresh start"
          if !held_exp.is_empty() { held_exp.clear(); owed.push_back(Expect::Reset); }
        }
      }
    }
  }
  let failed = x.log.iter().any(|c| matches!(c, Call::Failed { .. }));
  if !failed {
    let last = x.log.len();
    if let Some(exp) = chord { if !exp.is_empty() { return (d("C11", "due-chord-not-written", format!("chord {} never written", ev_str(&exp)), last), st); } }
    match owed.front() {
      Some(Expect::Step(exp)) => return (d(step_prop(seen_tablet), "step-output-never-written", format!("mapper output {} never written", ev_str(exp)), last), st),
      Some(Expect::Reset) => return (d("C12", "held-keys-not-released-at-once", "reset batch never written".to_string(), last), st),
      _ => {}
    }
    if x.horizon { return (d("C10", "does-not-stop", "the loop keeps calling the driver after everything was delivered".to_string(), x.log.len()), st); }
    match (&x.result, st.ended) {
      (Ok(()), true) => {}
      (Ok(()), false) => return (d("C10", "returned-without-end-of-device", "loop returned Ok although no device reported it is gone".to_string(), x.log.len()), st),
      (Err(e), _) => return (d("C10", "returned-error-without-fault", format!("loop returned Err({}) although no driver call failed", e), x.log.len()), st),
    }
  }
  (None, st)
}

pub fn ev_str(evs: &[Event]) -> String { crate::engine_a::events_str(evs) }

// ---------------------------------------------------------------------------
// Exploration driver

#[derive(Default)]
pub struct BAgg {
  pub executions: u64,
  pub driver_calls: u64,
  pub injected_runs: u64,
  pub distinct_logs: HashSet<u64>,
  pub distinct_send_logs: HashSet<u64>,
  pub distinct_fault_logs: HashSet<u64>,
  pub distinct_logs_capped: bool,
  pub rerun_identical: u64,
  pub max_choices: usize,
  pub counters: BTreeMap<&'static str, u64>,
  pub viols: BTreeMap<(String, String), (u64, Vec<u16>, String, Option<usize>)>, // (prop, clause) -> count, shortest choices, detail, fail_at
  pub machinery: Option<String>,
  pub samples: Vec<Value>,
  pub foreign: BTreeMap<String, u64>,
}

impl BAgg {
  pub fn merge(&mut self, o: BAgg) {
    self.executions += o.executions; self.driver_calls += o.driver_calls; self.injected_runs += o.injected_runs;
    self.distinct_logs.extend(o.distinct_logs); self.distinct_send_logs.extend(o.distinct_send_logs); self.distinct_fault_logs.extend(o.distinct_fault_logs); self.distinct_logs_capped |= o.distinct_logs_capped;
    self.rerun_identical += o.rerun_identical; self.max_choices = self.max_choices.max(o.max_choices);
    for (k, v) in o.counters { *self.counters.entry(k).or_insert(0) += v; }
    for (k, v) in o.viols { self.add_viol(k, v); }
    if self.machinery.is_none() { self.machinery = o.machinery; }
    for s in o.samples { if self.samples.len() < 5 { self.samples.push(s); } }
    for (k, v) in o.foreign { *self.foreign.entry(k).or_insert(0) += v; }
  }
  fn add_viol(&mut self, k: (String, String), v: (u64, Vec<u16>, String, Option<usize>)) {
    match self.viols.get_mut(&k) {
      None => { self.viols.insert(k, v); }
      Some(e) => { let c = e.0 + v.0; if (v.1.len(), &v.1) < (e.1.len(), &e.1) { *e = v; } e.0 = c; }
    }
  }
}

fn hash_of<T: Hash>(t: &T) -> u64 { let mut h = std::collections::hash_map::DefaultHasher::new(); t.hash(&mut h); h.finish() }

pub struct BFamily<'a> { pub name: &'a str, pub layout: Layout, pub cfg: EnvCfg }

/// Exhaustive DFS over the environment's choice sequences for one family; `inject` adds,
/// for every execution, one re-run per driver call with that call failing (C20).
/// stderr of this process pointed at /dev/null while a verbose family runs (one "Starting remapping loop." line per execution otherwise)
struct QuietStderr(Option<i32>);
impl QuietStderr {
  fn new(on: bool) -> QuietStderr {
    if !on { return QuietStderr(None); }
    unsafe {
      let saved = libc::dup(2);
      let null = libc::open(b"/dev/null\0".as_ptr() as *const libc::c_char, libc::O_WRONLY);
      if saved < 0 || null < 0 { return QuietStderr(None); }
      libc::dup2(null, 2); libc::close(null);
      QuietStderr(Some(saved))
    }
  }
}
impl Drop for QuietStderr {
  fn drop(&mut self) { if let Some(fd) = self.0 { unsafe { libc::dup2(fd, 2); libc::close(fd); } } }
}

pub fn explore_family(ctx: &Ctx, fam: &BFamily, own_prop: &str, inject: bool, cap_execs: u64) -> BAgg {
  let _quiet = QuietStderr::new(fam.cfg.verbose);
  let global: Mutex<Vec<Vec<u16>>> = Mutex::new(vec![vec![]]);
  let active = AtomicUsize::new(0);
  let total = AtomicUsize::new(0);
  let results: Mutex<Vec<BAgg>> = Mutex::new(vec![]);
  std::thread::scope(|sc| {
    for _ in 0..ctx.threads {
      sc.spawn(|| {
        let mut agg = BAgg::default();
        let mut local: Vec<Vec<u16>> = vec![];
        loop {
          let prefix = match local.pop() {
            Some(p) => p,
            None => {
              let mut g = global.lock().unwrap();
              match g.pop() {
                Some(p) => { active.fetch_add(1, Ordering::SeqCst); p }
                None => { if active.load(Ordering::SeqCst) == 0 { break; } drop(g); std::thread::yield_now(); continue; }
              }
            }
          };
          // one complete execution of the real loop
          let x = run_once(&fam.layout, &fam.cfg, &prefix, None);
          agg.executions += 1; agg.driver_calls += x.calls as u64; agg.max_choices = agg.max_choices.max(x.trace.len());
          if total.fetch_add(1, Ordering::Relaxed) as u64 > cap_execs { agg.machinery = Some(format!("execution cap {} reached in family {}", cap_execs, fam.name)); local.clear(); }
          if x.replay_divergence { agg.machinery = Some(format!("replay divergence (choice out of range) at prefix {:?} in family {}", prefix, fam.name)); }
          if let Some(p) = &x.panicked { agg.add_viol((own_prop.to_string(), "loop-panicked".into()), (1, x.trace.iter().map(|t| t.0).collect(), format!("the loop panicked: {}", p), None)); }
          let lh = hash_of(&x.log);
          if agg.distinct_logs.len() < 4_000_000 { agg.distinct_logs.insert(lh); } else { agg.distinct_logs_capped = true; }
          let sends: Vec<&Call> = x.log.iter().filter(|c| matches!(c, Call::Send { .. })).collect();
          agg.distinct_send_logs.insert(hash_of(&sends));
          // determinism: every 16th execution is run a second time and must produce the identical log
          if lh % 16 == 1 {
            let choices: Vec<u16> = x.trace.iter().map(|t| t.0).collect();
            let y = run_once(&fam.layout, &fam.cfg, &choices, None);
            if hash_of(&y.log) != lh || y.trace != x.trace { agg.machinery = Some(format!("the same schedule gave two different logs: {:?}", choices)); } else { agg.rerun_identical += 1; }
          }
          let (disc, st) = judge(&fam.layout, &x);
          for (k, v) in [("chords_written", st.chords), ("ticks_with_a_chord_key_held", st.chords_with_held_key), ("step_outputs_written", st.steps_sent), ("reset_batches_written", st.resets_sent),
                         ("keyboard_events_read_in_tablet_mode", st.tablet_reads_skipped), ("timers_started", st.timers_started), ("timers_cancelled_by_event", st.timers_cancelled_by_event),
                         ("late_ticks", st.late_ticks), ("ignored_events_while_timer_live", st.ignored_event_during_timer), ("wakeups_with_several_events", st.multi_event_wakeups), ("executions_ending_with_device_gone", st.ended as u64)] {
            *agg.counters.entry(k).or_insert(0) += v;
          }
          if x.trace.len() > 0 && x.now_calls == 0 && st.timers_started > 0 { agg.machinery = Some("the loop armed a timer without reading the virtual clock: Instant/thread are no longer shadowed".into()); }
          if let Some(dc) = disc {
            if dc.prop == own_prop || dc.also.contains(&own_prop) {
              agg.add_viol((own_prop.to_string(), dc.clause.to_string()), (1, x.trace.iter().map(|t| t.0).collect(), dc.detail.clone(), None));
            } else { *agg.foreign.entry(format!("{}/{}", dc.prop, dc.clause)).or_insert(0) += 1; }
          }
          if agg.samples.len() < 2 && x.log.len() > 12 && agg.executions % 101 == 7 { agg.samples.push(json!({"family": fam.name, "choices": x.trace.iter().map(|t| t.0).collect::<Vec<_>>(), "log": log_json(&x.log)})); }
          if inject {
            let choices: Vec<u16> = x.trace.iter().map(|t| t.0).collect();
            for k in 1..=x.calls {
              let y = run_once(&fam.layout, &fam.cfg, &choices, Some(k));
              agg.injected_runs += 1;
              let want = format!("injected-{}", k);
              let failed_idx = y.log.iter().position(|c| matches!(c, Call::Failed { .. }));
              let ok_err = match &y.result { Err(e) => e.contains(&want), Ok(_) => false };
              let ok_stop = y.calls == k && failed_idx == Some(y.log.len() - 1);
              *agg.counters.entry("faults_injected").or_insert(0) += 1;
              // non-trivial: the loop had already read an event or written something when the call failed
              if agg.distinct_fault_logs.len() < 4_000_000 && y.log.iter().any(|c| matches!(c, Call::Send { .. } | Call::NextK { ev: Some(_), .. } | Call::NextT { ev: Some(_), .. })) { agg.distinct_fault_logs.insert(hash_of(&y.log)); }
              if let Some(Call::Failed { what }) = y.log.last() { *agg.counters.entry(match *what { "poll" => "faults_at_poll", "send" => "faults_at_send", "next_keyboard" => "faults_at_next_keyboard", "next_tablet" => "faults_at_next_tablet", _ => "faults_at_register_poll" }).or_insert(0) += 1; }
              if !ok_err { agg.add_viol(("C20".into(), "error-not-returned".into()), (1, choices.clone(), format!("driver call {} failed with '{}' but the loop returned {:?}", k, want, y.result), Some(k))); }
              else if !ok_stop { agg.add_viol(("C20".into(), "driver-call-after-failure".into()), (1, choices.clone(), format!("driver call {} failed but the loop went on: {} calls in total", k, y.calls), Some(k))); }
            }
          }
          // alternatives beyond the prefix
          for i in prefix.len()..x.trace.len() {
            let (c, n) = x.trace[i];
            for alt in (c + 1)..n {
              let mut p: Vec<u16> = x.trace[..i].iter().map(|t| t.0).collect();
              p.push(alt);
              local.push(p);
            }
          }
          // share work
          if local.len() > 48 {
            let mut g = global.lock().unwrap();
            if g.len() < 64 { let keep = local.len() / 2; g.extend(local.drain(..keep)); }
          }
          if local.is_empty() { active.fetch_sub(1, Ordering::SeqCst); }
        }
        results.lock().unwrap().push(agg);
      });
    }
  });
  let mut total = BAgg::default();
  for a in results.into_inner().unwrap() { total.merge(a); }
  total
}

pub fn log_json(log: &[Call]) -> Vec<String> {
  log.iter().map(|c| match c {
    Call::Register => "register_poll".to_string(),
    Call::Poll { timeout_us, at_us, ret, after_us, label, .. } => format!("poll(timeout={:?}us) at {}us -> {:?} [{}] at {}us", timeout_us, at_us, ret, label, after_us),
    Call::NextK { ev, end, .. } => format!("next_keyboard -> {}", if *end { "End".to_string() } else { ev.as_ref().map(|e| ev_str(&[e.clone()])).unwrap_or("Busy".into()) }),
    Call::NextT { ev, end, .. } => format!("next_tablet -> {}", if *end { "End".to_string() } else { ev.map(|b| if b { "On" } else { "Off" }.to_string()).unwrap_or("Busy".into()) }),
    Call::Send { evs, at_us } => format!("send {} at {}us", ev_str(evs), at_us),
    Call::Failed { what } => format!("{} -> Err(injected)", what),
  }).collect()
}
