#!/usr/bin/env python3
"""Regenerates /verif/MANIFEST.json from the table below (run after adding a check)."""
import json, subprocess, os

A_NOTE = ("Trusted: the harness's own bookkeeping (BFS, fold of emitted events, monitors built from the layout and the physical history only), "
          "the snapshot/restore hook (re-validated every run by replaying BFS histories on a fresh mapper), key-class symmetry for keys a layout does not mention. "
          "Bounds: N keys held at once, generated layouts of <=3 mappings over a 4-key physical alphabet plus foreign keys, the hand-built families Q4, S4/S5, O3, M2, M3, NR4, K1-K5 (DESIGN 3.2), fixed corpus read from the tree.")

CHECKS = {
 "C01": ("model_checking", "A", "3.1, 6-C01", "explicit-state BFS to fixpoint over the real Mapper::step; device-level half: stateless DFS over delivery schedules of the real per-device loop (Engine B), held on the device vs held physically at every return to waiting",
         "Every reachable product state (real mapper snapshot x physically held set x fold of emitted events) of every layout of the corpus is visited; the invariant phys=0 => out=0 is checked in each, ill-formed events and release_all included; history length unbounded (fixpoint)."),
 "C02": ("model_checking", "A", "3.3, 6-C02", "explicit-state BFS to fixpoint over the real Mapper::step with product monitors; device-level half of clause (a) over delivery schedules of the real per-device loop (Engine B)",
         "State invariants (a) justified, (b) swallowed single-key-mapped keys, (c) no press on release, (d) trigger keys consumed, evaluated after every transition of every reachable state."),
 "C03": ("model_checking", "A", "3.3, 6-C03", "explicit-state BFS over the real Mapper::step; reference firing rule as transition predicate",
         "At every acted-on press in every reachable state of every non-absorbing layout the observed events must match the last-listed satisfied mapping / pass-through / swallowed-press rule."),
 "C04": ("model_checking", "A", "6-C04, 7.1", "explicit-state BFS over the real Mapper::step; event-by-event fold inside each firing step",
         "At the press of the fired mapping's final output key, in every reachable state: listed modifiers down, no stale modifier. One shape (modifier as final output key) is an open known finding."),
 "C05": ("model_checking", "A", "6-C05", "explicit-state BFS over the real Mapper::step; foreign keys in the alphabet; device-level half of clause (a) over delivery schedules of the real per-device loop incl. large notifications ending in an uninvolved key (Engine B)",
         "Foreign keys (modifier and non-modifier) pressed/released from every reachable state; release and in-effect clauses as transition predicates; empty layout is the identity on acted-on events."),
 "C06": ("model_checking", "A", "3.4, 6-C06", "explicit-state BFS + coarsest bisimulation (partition refinement) of the explored Mealy machine; loop half: stateless DFS over tablet-mode schedules of the real per-device loop (Engine B)",
         "Every rest state (after releases or after release_all from any reachable state) has nothing held and is bisimilar to the initial state, i.e. answers every continuation within the bound like a fresh mapper."),
 "C07": ("model_checking", "A", "6-C07", "explicit-state BFS over the real Mapper::step; nr monitor in the product",
         "After every (certain or observed) firing of a Disabled/Special mapping no non-modifier key is held, each output was pressed, and nothing becomes held again before the next press."),
 "C08": ("model_checking", "A", "6-C08, 7.2", "explicit-state BFS over the real Mapper::step; per-modifier absorption monitor in the product",
         "While a modifier is certainly absorbed: (a) no observed firing of a mapping requiring it from another trigger, (b) it is not down at non-modifier presses, (c) immediate re-press of the trigger refires, (d) an unabsorbed modifier counts. (The stacked-absorption corner found by this check was first recorded as a known finding and later repaired, commit 5511313; its signature no longer suppresses anything.)"),
 "C09": ("model_checking", "A", "6-C09", "explicit-state BFS over the real Mapper::step; reference repeat instruction as transition predicate",
         "Every step's repeat instruction (Repeating exactly the fired Special mapping's parameters / Disabled / NoChange with no events for ignored events) in every reachable state."),
 "C10": ("model_checking", "B", "4, 6-C10", "stateless DFS (prefix replay) over all delivery schedules of the real per-device loop under a scripted driver; plus bounded-exhaustive stepped scenarios of the real driver on real descriptors and a hang-up probe (Engine R)",
         "Every history over a small key alphabet up to the length bound, every way of batching it into arrivals under edge-triggered readiness, late arrivals between reads, spurious time-outs and interruptions up to the deviation bound, end-of-device at every point: the writes equal a fresh real mapper's non-empty step outputs, each written at once; no poll while notified events are unread; no call after End."),
 "C11": ("model_checking", "B", "4.2, 6-C11, 7.7", "stateless DFS over delivery schedules and time-out placements with a virtual clock owned by the environment; plus an interrupted-wait probe of the real driver on the machine's clock with a one-sided bound read from /proc (Engine R)",
         "Every placement of on-time and late time-outs between events: poll time-outs never reach beyond the next due time, a chord is written exactly in reaction to a time-out at/after the due time anchored at the firing (no drift), its payload leaves held keys alone and the held set unchanged, nothing is written at other times."),
 "C12": ("model_checking", "B", "4.2, 6-C12, 7.6", "stateless DFS over delivery schedules including tablet-switch events on a second device; plus bounded-exhaustive stepped scenarios of the real driver and tablet-switch reader on real descriptors (Engine R)",
         "Every placement of On/Off events (repeated, Off first, sharing a wake-up with keyboard events in both orders, while chords or timers are live): held keys released at once, nothing written until Off, fresh start after Off."),
 "C20": ("fault_enumeration", "B", "6-C20", "exhaustive fault injection: every driver call of every explored execution fails in turn; plus descriptor-state faults (EAGAIN, EPIPE, ECONNRESET, a device with room for only part of a report) under the real driver at every step of stepped scenarios (Engine R)",
         "For every execution of the schedule set and every k: the k-th driver call returns an error; the loop must return that error and make no further driver call."),
 "C13": ("exploration", "C", "5.1, 6-C13", "bounded-exhaustive enumeration of layout programs from a grammar against a reference expander (differential through the real loader)",
         "Every program of the grammar (alias set-ups x rows x positions x all printable ASCII characters; single mappings over modifier/output/repeat/absorbing forms with neighbours; whole-row programs; ordered tuples of sources): the converter's output equals the hand-written expansion, group by group in source order; respelled variants convert identically."),
 "C14": ("exploration", "C", "6-C14", "bounded-exhaustive input enumeration of the real load_layout_from_file in worker processes + explicit-state exploration of every accepted layout and of the generated layout families (panics only) + the same inputs through the real binary's loading path in a private mount namespace (Engine E)",
         "Every byte string up to the length bound, schema-shaped JSON over an atom menu, all single (thorough: pair) structure-aware mutations of seed layouts, repeated keys/aliases at every position: load returns Ok or Err, never panics or dies; every accepted layout, and every layout of the generated mapper families (up to four keys held), is explored by Engine A to a fixpoint without a panic; the real binary (`remap --layout-file F`) ends with status 0 or 1 on every structured input."),
 "C15": ("exploration", "C", "5.4, 6-C15", "exhaustive enumeration over all key codes and a layout shape family; save with the installer's call, reload with the real loader; end-to-end through the real binary's add_systemd_service in a private mount namespace (Engine E)",
         "All key codes the tool knows in every syntactic position, the shape family with extreme numbers, the converted fixed corpus: the reloaded mapping list equals the saved one; also through the real private write_layout_to_global_config into a private /etc inside a mount namespace, and through the real binary's `add_systemd_service --layout-file F` (files in basic and in shorthand syntax, built-in names) whose saved file is reloaded and compared with what the loader makes of F."),
 "C16": ("exploration", "C", "5.4, 6-C16", "bounded-exhaustive enumeration of device-list texts and exclude sets (independence, agreement, anchors from the kernel's bitmap format); end-to-end runs of the real binary in a private mount namespace",
         "Every sequence of device entries up to the bound through both private extractors (independence of neighbours, agreement of the two discovery paths), every exclude set against an independent glob matcher, and the real binary's list_keyboards / --all-keyboards / --dev-file --only-if-keyboard selection over fabricated /proc, /sys and /dev."),
 "C17": ("exploration", "C", "5.2, 6-C17", "exhaustive enumeration (all Unicode scalar values, all short strings over the syntax alphabet, pattern lists) against a reference systemd ExecStart reader, in-process through build_service_text and end-to-end through the unit file written by the real binary's add_systemd_service in a private mount namespace (Engine E)",
         "Every input goes through the real build_service_text; the reference reader (split, unquote, C-unescape, % specifiers, $ variables) must return the expected argument vector with every pattern byte-identical (order and repetition of the --exclude pairs are not constrained, DESIGN 7.10); the same oracle reads the unit file the real binary writes for every scalar value, alphabet pair and long list."),
 "C18": ("exploration", "C", "5.3, 6-C18", "exhaustive enumeration over all key codes, short and long batches, devices with little room and record-kind sequences; real writer and reader over a pipe with libc::input_event as layout oracle; large batches through the real driver on real descriptors (Engine R)",
         "Every key code x press/release, every short batch over boundary codes: byte length, every record's type/code/value at libc's offsets, exactly one trailing SYN_REPORT; the real reader returns the same events then EAGAIN and skips every foreign record kind in every sequence up to the bound."),
 "C19": ("model_checking", "A", "6-C19", "explicit-state BFS over the real Mapper::step; fold of the emitted stream; device-level half: the same fold over what the real per-device loop writes in every tablet-mode schedule (Engine B)",
         "Within every step's event list and every release_all batch, from every reachable state: press only of an up key, release only of a down key."),
}

PENDING = {}
B_NOTE = ("Trusted: the environment model (edge-triggered readiness, non-blocking reads, poll faithful to its timeout), the virtual clock seam (the engine fails as machinery if the loop arms a timer without reading it), "
          "a separate fresh real Mapper as the reference for what each read event must produce. Bounds: history length, deviation count and time-out count per family (in the evidence).")
C_NOTE = ("Trusted: the reference model/oracle named in the technique field (kept small, in /verif/harness/src), the enumeration code, the hooks that expose private functions unchanged. "
          "Bounds are stated in the evidence `rule`; within them the enumeration is complete (no sampling).")
NOTES = {"C13": C_NOTE, "C14": C_NOTE, "C15": C_NOTE, "C16": C_NOTE, "C17": C_NOTE, "C18": C_NOTE, "C10": B_NOTE, "C11": B_NOTE, "C12": B_NOTE, "C20": B_NOTE}

def repo_hook_commits():
    out = subprocess.run(["git", "-C", "/repo", "log", "--format=%H %s"], capture_output=True, text=True).stdout
    return [l.split()[0] for l in out.splitlines() if " verif hook:" in l][::-1]

ENGINES = [
 {"name": "A", "path": "harness/src/engine_a.rs", "serves_properties": ["C01","C02","C03","C04","C05","C06","C07","C08","C09","C19","C14"], "kind_free_text": "explicit-state BFS to fixpoint over the real Mapper::step/release_all with product monitors; partition refinement for C06"},
 {"name": "B", "path": "harness/src/engine_b.rs", "serves_properties": ["C01","C02","C05","C06","C10","C11","C12","C19","C20"], "kind_free_text": "stateless DFS over environment choices of a scripted driver + virtual clock running the real do_remapping_loop_one_device"},
 {"name": "R", "path": "harness/src/engine_r.rs", "serves_properties": ["C10","C11","C12","C18","C20"], "kind_free_text": "the real RealDriver, readers, writer and poll registry over socket pairs and a pipe, stepped deterministically (loop thread observed at rest in epoll_wait); bounded-exhaustive scenario families with descriptor-state faults"},
 {"name": "E", "path": "harness/src/e2e.rs", "serves_properties": ["C14","C15","C17"], "kind_free_text": "the real binary (guard off) in a private mount namespace with a private /etc and /dev and no-op helper programs: add_systemd_service and remap --layout-file over the same exhaustive input families, the files it leaves behind judged by the in-process oracles (DESIGN 5.5)"},
 {"name": "C", "path": "harness/src", "serves_properties": ["C13","C14","C15","C16","C17","C18"], "kind_free_text": "bounded-exhaustive input enumeration of the pure functions against small reference models; one file per property: c13.rs ... c18.rs"},
]

def main():
    checks = []
    for pid in sorted(CHECKS):
        cat, eng, ref, tech, text = CHECKS[pid]
        checks.append({
            "property_id": pid,
            "quick_cmd": f"./check {pid} --tier quick",
            "thorough_cmd": f"./check {pid} --tier thorough",
            "evidence_file": f"/verif/evidence/{pid}.json",
            "replay_cmd_template": "./check replay {path}",
            "engine": eng,
            "level_claimed": {"category": cat, "text": text, "design_ref": "DESIGN.md §" + ref},
            "level_note": NOTES.get(pid, A_NOTE),
            "technique": tech,
        })
    m = {
        "version": 1,
        "setup_cmd": "./check build && ./check build-repo",
        "hooks": {
            "guard": "--cfg ellbur_totalmapper_verif",
            "enable": "RUSTFLAGS='--cfg ellbur_totalmapper_verif --cfg ellbur_totalmapper_verif_real' for the harness crate /verif/harness, which includes /repo/src/*.rs by #[path] (set by ./check); /repo itself is never built with the guard on. The second flag only has an effect inside cfg(ellbur_totalmapper_verif): it enables the one hook that names the private RealDriver's fields (run_real_driver_on_fds); if only that hook fails to compile on a tree, ./check rebuilds without it and Engine R reports itself unavailable",
            "baseline_off_cmd": "cd /repo && CARGO_NET_OFFLINE=true cargo test --workspace --no-fail-fast --offline",
            "source_commits": repo_hook_commits(),
            "add_only": True,
        },
        "engines": ENGINES,
        "checks": checks,
        "notes": "Exit codes of every command: 0 held (known findings printed as KNOWN-FINDING), 1 unlisted violation (VIOLATION line + replay artefact under /verif/replays), 2 machinery failure (never a verdict). Known findings: /verif/known_findings.json.",
        "not_applicable": [{"property_id": k, "reason": v} for k, v in sorted(PENDING.items()) if k not in CHECKS],
    }
    with open("/verif/MANIFEST.json", "w") as f:
        json.dump(m, f, indent=1)
        f.write("\n")
    try:
        import jsonschema
        jsonschema.validate(m, json.load(open("/root/.vp/MANIFEST.schema.json")))
        print("MANIFEST.json valid;", len(checks), "checks;", len(m["not_applicable"]), "not claimed")
    except ImportError:
        print("written (jsonschema not importable here)")

if __name__ == "__main__":
    main()
