#!/usr/bin/env python3
"""Mutation catalogue self-test (DESIGN §10).

For every catalogue entry: apply the edit to /repo's working tree, optionally run the
repository's own tests (an entry is only a useful demonstration if they still pass),
run the quick checks named in `expect` (must report) and in `silent` (must not), and
restore the tree (git checkout).  Nothing is ever committed to /repo.

usage: tools/mutants.py [--tests] [--others] [NAME ...]
"""
import subprocess, sys, json, os, re

KT = "src/key_transforms.rs"
RL = "src/remapping_loop.rs"
UU = "src/udev_utils.rs"
KL = "src/keyboard_listing.rs"
DI = "src/dev_input_rw.rs"
FI = "src/fancy_layout_interpreting.rs"

CATALOGUE = {
 # name: (file, old, new, expect [props that must report], silent [props that must stay quiet])
 "M01-absorbed-not-cleared-on-repress": (KT,
   "  state.mapped_absorbed_keys.retain(|(k2, _)| *k2 != k);\n  state.repeating_trigger = None;",
   "  state.repeating_trigger = None;", ["C06", "C08"], ["C01", "C05", "C07", "C09", "C19"]),
 "M02-equivalent-drop-removed-key-test": (KT,
   "if input_pressed_keys.contains(&k) && k != removed_key {", "if input_pressed_keys.contains(&k) {", [], ["C01", "C02", "C05", "C06", "C19"]),
 "M03-ignored-press-answers-disabled": (KT,
   "        else {\n          StepResult {\n            events: vec![],\n            repeat: ResultingRepeat::NoChange\n          }\n        }\n      },\n      Released(k)",
   "        else {\n          StepResult {\n            events: vec![],\n            repeat: ResultingRepeat::Disabled\n          }\n        }\n      },\n      Released(k)", ["C09"], ["C01", "C03", "C06", "C19"]),
 "M07-active-output-mention-ignored": (KT,
   "      else if m.to.contains(&k) {\n        any_hit = true;\n        break;\n      }",
   "      else if false && m.to.contains(&k) {\n        any_hit = true;\n        break;\n      }", ["C19", "C03"], []),
 "M08-drop-output-key-equal-to-released-trigger": (KT,
   "    if !still_used {\n      state.mapped_output_keys.remove(mapped_output_i);\n    }",
   "    if !still_used || k == removed_key {\n      state.mapped_output_keys.remove(mapped_output_i);\n    }", ["C01", "C02", "C06", "C19"], []),
 "M10-disabled-lifts-only-when-nothing-passes-through": (KT,
   "    Repeat::Disabled => {\n      // Release all action keys to prevent repeating\n      res.events.append(&mut release_all_action_keys(state));",
   "    Repeat::Disabled => {\n      // Release all action keys to prevent repeating\n      if state.pass_through_keys.is_empty() { res.events.append(&mut release_all_action_keys(state)); }", ["C07"], ["C01", "C19"]),
 "M14-skip-release-action-mappings-on-chord": (KT,
   "  if is_action_mapping(m) {\n    events.append(&mut release_action_mappings(state));",
   "  if is_action_mapping(m) {\n    if false { events.append(&mut release_action_mappings(state)); }", ["C04"], []),
 "M15-release-all-action-keys-takes-modifiers": (KT,
   "  state.pass_through_keys.retain(|k| {\n    if is_action_key(k) {\n      to_release.push(*k);",
   "  state.pass_through_keys.retain(|k| {\n    if true {\n      to_release.push(*k);", ["C05"], []),
 "M16-first-listed-instead-of-last-listed": (KT,
   "    for mapping in mappings.iter().rev() {\n      if is_supported(", "    for mapping in mappings.iter() {\n      if is_supported(", ["C03"], ["C01", "C19", "C06"]),
 "M17-shared-modifier-collected-twice": (KT,
   "if state.mapped_output_keys.contains(mod_key) && !keys_to_release.contains(mod_key) {", "if state.mapped_output_keys.contains(mod_key) {", ["C19"], ["C01", "C06"]),
 "M18-rightmeta-not-a-standard-modifier": (KT,
   "    RIGHTMETA => false,\n", "", ["C05"], ["C01", "C19"]),
 "L05-rearm-from-max-wakeup-now": (RL,
   "                  next_wakeup: next_wakeup + Duration::from_millis(interval_ms as u64),",
   "                  next_wakeup: std::cmp::max(next_wakeup, Instant::now()) + Duration::from_millis(interval_ms as u64),", ["C11"], ["C10", "C12", "C20"]),
 "L06-timer-left-armed-in-tablet-mode": (RL,
   "                          in_tablet_mode = true;\n                          working_repeat = WorkingRepeat::Idle;", "                          in_tablet_mode = true;", [], ["C10", "C11", "C12", "C20"]),
 "L11-send-error-dropped": (RL,
   "                        if !evs_out.is_empty() {\n                          driver.send(&evs_out)?;\n                        }",
   "                        if !evs_out.is_empty() {\n                          let _ = driver.send(&evs_out);\n                        }", ["C20"], ["C10", "C11", "C12"]),
 "L12-nochange-cancels-timer": (RL,
   "                          ResultingRepeat::NoChange => working_repeat", "                          ResultingRepeat::NoChange => WorkingRepeat::Idle", ["C11"], ["C10", "C12", "C20"]),
 "L13-no-mapper-reset-on-off": (RL,
   "                        Off => {\n                          in_tablet_mode = false;\n                          working_repeat = WorkingRepeat::Idle;\n                          let release_events = mapper.release_all();",
   "                        Off => {\n                          in_tablet_mode = false;\n                          working_repeat = WorkingRepeat::Idle;\n                          let release_events: Vec<Event> = Vec::new();", ["C12"], ["C10", "C11", "C20"]),
 "L14-at-most-two-events-per-wakeup": (RL,
   "              Device::Keyboard => {\n                loop {\n                  match driver.next_keyboard()? {",
   "              Device::Keyboard => {\n                let mut verif_mut_n = 0;\n                loop {\n                  verif_mut_n += 1; if verif_mut_n > 3 { break; }\n                  match driver.next_keyboard()? {", ["C10"], ["C11", "C20"]),
 "L15-chord-includes-held-keys": (RL,
   "                  if !mapper.is_output_key_held(key) {\n                    repeat_send.push(Pressed(*key));", "                  if true {\n                    repeat_send.push(Pressed(*key));", ["C11"], ["C10", "C12", "C20"]),
}

def sh(cmd, **kw):
    return subprocess.run(cmd, shell=True, capture_output=True, text=True, **kw)

def main():
    args = sys.argv[1:]
    run_tests = "--tests" in args
    names = [a for a in args if not a.startswith("--")] or sorted(CATALOGUE)
    assert sh("git -C /repo status --porcelain").stdout.strip() == "", "/repo working tree is not clean"
    results = {}
    for name in names:
        f, old, new, expect, silent = CATALOGUE[name]
        path = "/repo/" + f
        src = open(path).read()
        if src.count(old) != 1:
            print(f"{name}: pattern occurs {src.count(old)} times - SKIPPED"); results[name] = "pattern-mismatch"; continue
        open(path, "w").write(src.replace(old, new, 1))
        try:
            line = [name]
            if run_tests:
                r = sh("cd /repo && CARGO_NET_OFFLINE=true cargo test --workspace --no-fail-fast --offline 2>&1 | grep 'test result'")
                line.append("tests:" + ("pass" if " 0 failed" in r.stdout and "ok." in r.stdout else "FAIL"))
            ok = True
            for p in expect + silent:
                r = sh(f"cd /verif && ./check {p} --tier quick")
                reported = "VIOLATION property=" + p in r.stdout
                code = r.returncode
                want = p in expect
                tag = f"{p}:{'reported' if reported else ('quiet' if code == 0 else 'exit'+str(code))}"
                if reported != want or (not reported and code != 0): ok = False; tag += "(!)"
                if reported:
                    m = re.search(r"clause=(\S+)", r.stdout); tag += "[" + (m.group(1) if m else "?") + "]"
                line.append(tag)
            line.append("AS-EXPECTED" if ok else "UNEXPECTED")
            print(" ".join(line), flush=True)
            results[name] = ok
        finally:
            sh("git -C /repo checkout -- .")
            sh("rm -f /verif/replays/*.json")
    # restore evidence for the unchanged tree is the caller's business (re-run the checks)
    bad = [n for n, v in results.items() if v is not True]
    print("mutants:", len(results), "unexpected:", bad)
    sys.exit(1 if bad else 0)

if __name__ == "__main__":
    main()
