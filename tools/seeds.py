#!/usr/bin/env python3
"""Seeded property-breaking changes (/verif/seeded/<name>/): import, confirm, evaluate.

  tools/seeds.py import <name> <dir-with-patch.diff,demo.diff,NOTES.md> <property>
      copies the files into /verif/seeded/<name>/ and confirms, in a scratch worktree of /repo
      outside /repo and /verif: the patch applies to HEAD, the repository's own tests still pass
      with it, the demonstration fails with it and passes without it.  Writes meta.json.
  tools/seeds.py eval [--all-checks] [<name> ...]
      for each seed: git -C /repo apply patch.diff; run the quick check of its property (and,
      with --all-checks, of every other property); git -C /repo checkout -- .  Records the
      outcome in meta.json ("detected_by", "quiet").  /repo must be clean; nothing is committed.
"""
import json, os, re, shutil, subprocess, sys

SEEDED = "/verif/seeded"
ALL = ["C%02d" % i for i in range(1, 21)]

def sh(cmd, cwd=None, env=None, timeout=3600):
    e = dict(os.environ); e["CARGO_NET_OFFLINE"] = "true"
    if env: e.update(env)
    return subprocess.run(cmd, shell=True, cwd=cwd, env=e, capture_output=True, text=True, timeout=timeout)

def test_counts(out):
    m = re.findall(r"test result: \w+\. (\d+) passed; (\d+) failed", out)
    return (sum(int(a) for a, _ in m), sum(int(b) for _, b in m)) if m else (None, None)

def confirm(name):
    d = f"{SEEDED}/{name}"
    wt = "/tmp/seedverify-wt"; tgt = "/tmp/seedverify-target"
    sh(f"git -C /repo worktree remove --force {wt}")
    r = sh(f"git -C /repo worktree add --detach {wt} HEAD"); assert r.returncode == 0, r.stderr
    res = {}
    try:
        r = sh(f"git apply --check {d}/patch.diff", cwd=wt); res["patch_applies"] = r.returncode == 0
        if not res["patch_applies"]: res["error"] = r.stderr; return res
        sh(f"git apply {d}/patch.diff", cwd=wt)
        os.makedirs(f"{wt}/target", exist_ok=True)  # some demonstrations write scratch files under <manifest dir>/target
        r = sh("cargo test --workspace --no-fail-fast --offline 2>&1", cwd=wt, env={"CARGO_TARGET_DIR": tgt})
        p, f = test_counts(r.stdout); res["existing_tests_with_patch"] = {"passed": p, "failed": f}
        res["compiles"] = p is not None
        if os.path.exists(f"{d}/demo.diff"):
            r = sh(f"git apply {d}/demo.diff", cwd=wt); res["demo_applies"] = r.returncode == 0
            if res["demo_applies"]:
                r = sh("cargo test --workspace --no-fail-fast --offline 2>&1", cwd=wt, env={"CARGO_TARGET_DIR": tgt})
                p2, f2 = test_counts(r.stdout); res["with_patch_and_demo"] = {"passed": p2, "failed": f2}
                sh(f"git apply -R {d}/patch.diff", cwd=wt)
                r = sh("cargo test --workspace --no-fail-fast --offline 2>&1", cwd=wt, env={"CARGO_TARGET_DIR": tgt})
                p3, f3 = test_counts(r.stdout); res["demo_without_patch"] = {"passed": p3, "failed": f3}
        ok = res.get("existing_tests_with_patch", {}).get("failed") == 0 and res.get("existing_tests_with_patch", {}).get("passed") == 49
        if "with_patch_and_demo" in res:
            ok = ok and (res["with_patch_and_demo"]["failed"] or 0) > 0 and res["demo_without_patch"]["failed"] == 0
        res["confirmed"] = bool(ok)
    finally:
        sh(f"git -C /repo worktree remove --force {wt}")
        shutil.rmtree(tgt, ignore_errors=True)
    return res

def cmd_import(name, src, prop):
    d = f"{SEEDED}/{name}"; os.makedirs(d, exist_ok=True)
    for f in ["patch.diff", "demo.diff", "NOTES.md"]:
        if os.path.exists(f"{src}/{f}"): shutil.copy(f"{src}/{f}", f"{d}/{f}")
    res = confirm(name)
    meta = {"name": name, "property": prop, "source": "independent sub-agent given only the property text and a scratch worktree", "needs_to_manifest": "see NOTES.md",
            "confirmation": res, "confirmed_with": "tools/seeds.py import (scratch worktree /tmp/seedverify-wt of /repo HEAD: git apply patch.diff; cargo test --offline; git apply demo.diff; cargo test; git apply -R patch.diff; cargo test)",
            "repo_head": sh("git -C /repo rev-parse --short HEAD").stdout.strip()}
    json.dump(meta, open(f"{d}/meta.json", "w"), indent=1)
    print(name, json.dumps(res))

def cmd_eval(names, all_checks):
    assert sh("git -C /repo status --porcelain").stdout.strip() == "", "/repo working tree is not clean"
    names = names or sorted(os.listdir(SEEDED))
    for name in names:
        d = f"{SEEDED}/{name}"
        if not os.path.exists(f"{d}/meta.json"): continue
        meta = json.load(open(f"{d}/meta.json"))
        prop = meta["property"]
        # patch_rebased.diff: the same change ported by hand to a later /repo HEAD (the original stays for the record);
        # otherwise the original patch, with reduced context if a later fix commit moved its surroundings
        patch = f"{d}/patch_rebased.diff" if os.path.exists(f"{d}/patch_rebased.diff") else f"{d}/patch.diff"
        r = sh(f"git -C /repo apply {patch}")
        if r.returncode != 0: r = sh(f"git -C /repo apply -C1 {patch}")
        if r.returncode != 0: print(name, "patch does not apply:", r.stderr.strip()); continue
        try:
            detected, quiet, other = [], [], []
            for p in ([prop] + [q for q in ALL if q != prop] if all_checks else [prop]):
                r = sh(f"./check {p} --tier quick", cwd="/verif")
                rep = f"VIOLATION property={p}" in r.stdout
                clause = re.search(r"clause=(.+?) instances", r.stdout)
                if rep: detected.append(p + (f" [{clause.group(1)}]" if clause else ""))
                elif r.returncode == 0: quiet.append(p)
                else: other.append(f"{p}: exit {r.returncode} {r.stderr.strip()[:200]}")
            meta["evaluation"] = {"repo_head": sh("git -C /repo rev-parse --short HEAD").stdout.strip(), "patch_used": os.path.basename(patch), "detected_by": detected, "quiet": quiet, "machinery": other, "all_checks": all_checks, "verif_head": sh("git -C /verif rev-parse --short HEAD").stdout.strip()}
            json.dump(meta, open(f"{d}/meta.json", "w"), indent=1)
            print(name, "property", prop, "DETECTED" if any(x.startswith(prop) for x in detected) else "MISSED", "| reported:", detected, "| machinery:", other, flush=True)
        finally:
            sh("git -C /repo checkout -- .")
            sh("find /verif/replays -name '*.json' -delete")

if __name__ == "__main__":
    a = sys.argv[1:]
    if a and a[0] == "import": cmd_import(a[1], a[2], a[3])
    elif a and a[0] == "eval": cmd_eval([x for x in a[1:] if not x.startswith("--")], "--all-checks" in a)
    else: print(__doc__)
