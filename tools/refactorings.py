#!/usr/bin/env python3
"""Behaviour-preserving refactorings written by independent sub-agents (/verif/refactorings/<name>/):
negative cases - no check may raise an alarm on them.

  tools/refactorings.py import <name> <dir-with-refactor.diff,NOTES.md>
  tools/refactorings.py eval [<name> ...]     apply to /repo, run the repository's tests and ALL quick checks, revert
"""
import json, os, re, shutil, subprocess, sys
D = "/verif/refactorings"
ALL = ["C%02d" % i for i in range(1, 21)]
def sh(cmd, cwd=None):
    e = dict(os.environ); e["CARGO_NET_OFFLINE"] = "true"
    return subprocess.run(cmd, shell=True, cwd=cwd, env=e, capture_output=True, text=True)
def main():
    a = sys.argv[1:]
    if a and a[0] == "import":
        d = f"{D}/{a[1]}"; os.makedirs(d, exist_ok=True)
        for f in ["refactor.diff", "NOTES.md"]:
            if os.path.exists(f"{a[2]}/{f}"): shutil.copy(f"{a[2]}/{f}", f"{d}/{f}")
        json.dump({"name": a[1], "source": "independent sub-agent given the 20 property statements and a scratch worktree; asked for a substantial behaviour-preserving refactoring", "repo_head": sh("git -C /repo rev-parse --short HEAD").stdout.strip()}, open(f"{d}/meta.json", "w"), indent=1)
        print("imported", a[1]); return
    if a and a[0] == "eval":
        assert sh("git -C /repo status --porcelain").stdout.strip() == "", "/repo working tree is not clean"
        for name in (a[1:] or sorted(os.listdir(D))):
            d = f"{D}/{name}"; meta = json.load(open(f"{d}/meta.json"))
            r = sh(f"git -C /repo apply {d}/refactor.diff")
            if r.returncode != 0: print(name, "does not apply to the current /repo HEAD (it was written for and evaluated at", meta.get("repo_head"), "- see its meta.json)"); continue
            try:
                t = sh("cargo test --workspace --no-fail-fast --offline 2>&1 | grep 'test result'", cwd="/repo").stdout.strip()
                alarms, quiet, mach = [], [], []
                for p in ALL:
                    r = sh(f"./check {p} --tier quick", cwd="/verif")
                    if "VIOLATION property=" in r.stdout:
                        m = re.search(r"clause=(.+?) instances=(\d+) :: (.*)", r.stdout); alarms.append(f"{p} [{m.group(1) if m else '?'}] {m.group(3)[:300] if m else ''}")
                    elif r.returncode == 0: quiet.append(p)
                    else: mach.append(f"{p}: exit {r.returncode} {r.stderr.strip()[:300]}")
                meta["evaluation"] = {"repo_tests": t, "alarms": alarms, "quiet": quiet, "machinery": mach, "verif_head": sh("git -C /verif rev-parse --short HEAD").stdout.strip()}
                json.dump(meta, open(f"{d}/meta.json", "w"), indent=1)
                print(name, "|", t, "| alarms:", alarms, "| machinery:", mach, "| quiet:", len(quiet), flush=True)
            finally:
                sh("git -C /repo checkout -- .")
                sh("find /verif/replays -name '*.json' -delete")
        return
    print(__doc__)
if __name__ == "__main__": main()
